#!/bin/sh
# Offline setup: nothing to build ahead of time - every check compiles /repo's current working
# tree with cargo kani.  Verify the tools are present and warm one cargo-kani target dir so the
# first check does not pay for compiling the dependencies.
set -e
cd "$(dirname "$0")"
command -v cargo >/dev/null
cargo kani --version
cbmc --version
mkdir -p .build evidence replays
python3 -c "import json; json.load(open('harness/INDEX.json')); json.load(open('known_findings.json'))"
echo setup ok
