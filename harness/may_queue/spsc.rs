// C03 (spsc half): harnesses over the real may_queue/src/spsc.rs (child module, cfg(kani) only).
//
// Real code: Queue::{new, alloc_node (inner_cache), push, pop, peek, len, is_empty},
// BlockNode::{new, set, get, peek}.  Under cfg(kani) the block size constant is 4 slots instead of
// 32 (same code, retargeted constant): block boundaries, block recycling through
// first / last_head and the second boundary are reached with a handful of operations.
use super::*;
use crate::verif_shim::{np, sa};

static mut Q: *const Queue<u8> = std::ptr::null();
static mut MAXD: usize = 1;
static mut PUSH_LEFT: usize = 0;
static mut PUSHED: u8 = 0; // pushes started (= value of the last push)
static mut PUSH_DONE: u8 = 0;
static mut POP_LEFT: usize = 0; // whole pops that may still be nested into the producer
static mut POPPED: u8 = 0;
static mut IN_POP: bool = false;
static mut IN_PUSH: bool = false;

fn producer_push() {
    unsafe {
        PUSHED += 1;
        IN_PUSH = true;
        (*Q).push(PUSHED);
        IN_PUSH = false;
        PUSH_DONE += 1;
    }
}
/// one whole pop with the single-consumer FIFO linearizability oracle
fn consumer_pop() {
    unsafe {
        let done_at_start = PUSH_DONE;
        IN_POP = true;
        let r = (*Q).pop();
        IN_POP = false;
        match r {
            None => assert!(done_at_start <= POPPED, "C03: pop returned None although a completed push was unconsumed"),
            Some(v) => {
                assert!(v == POPPED + 1, "C03: pop returned a value out of order, twice, or never pushed");
                assert!(v <= PUSHED, "C03: pop returned a value whose push has not started");
                POPPED += 1;
            }
        }
    }
}
fn hook() {
    unsafe {
        if np::DEPTH < MAXD {
            if PUSH_LEFT > 0 && !IN_PUSH && kani::any() {
                PUSH_LEFT -= 1;
                np::nested(producer_push);
            }
            if np::DEPTH < MAXD && POP_LEFT > 0 && !IN_POP && kani::any() {
                POP_LEFT -= 1;
                np::nested(consumer_pop);
            }
        }
    }
}
fn spin_prune() {
    kani::assume(false);
}
/// move the empty queue to slot offset `s` with s push/pop pairs (values are renumbered after)
fn shifted_queue(s: usize) -> Queue<u8> {
    let q: Queue<u8> = Queue::new();
    let mut i = 0;
    while i < s {
        q.push(0);
        assert!(q.pop() == Some(0));
        i += 1;
    }
    q
}

/// sequential histories: a solver-chosen sequence of 9 push/pop operations from a solver-chosen
/// offset, against the reference FIFO (values are sequence numbers); crosses two block boundaries
/// and recycles a block
#[kani::proof]
#[kani::unwind(10)]
fn c03_spsc_seq_fifo() {
    let s: usize = kani::any();
    kani::assume(s < BLOCK_SIZE);
    let q = shifted_queue(s);
    unsafe { Q = &q };
    let mut i = 0;
    while i < 9 {
        if kani::any() {
            producer_push();
        } else {
            consumer_pop();
        }
        unsafe {
            assert!(q.len() == (PUSHED - POPPED) as usize, "C03: len() disagrees with the history");
            assert!(q.is_empty() == (PUSHED == POPPED));
            if PUSHED > POPPED {
                assert!(q.peek() == Some(&(POPPED + 1)));
            }
        }
        i += 1;
    }
    unsafe {
        kani::cover!(PUSHED == 9, "nine pushes: two block boundaries crossed");
        kani::cover!(PUSHED >= 5 && POPPED >= 4, "pops crossed a block boundary while pushes continued");
    }
    std::mem::forget(q);
}

macro_rules! np_harness {
    ($(#[$m:meta])* fn $name:ident() $body:block) => {
        #[kani::proof]
        $(#[$m])*
        #[kani::stub(core::sync::atomic::Atomic::<*mut T>::load, sa::ptr_load)]
        #[kani::stub(core::sync::atomic::Atomic::<*mut T>::store, sa::ptr_store)]
        #[kani::stub(core::sync::atomic::Atomic::<usize>::load, sa::usize_load)]
        #[kani::stub(core::sync::atomic::Atomic::<usize>::store, sa::usize_store)]
        #[kani::stub(std::hint::spin_loop, spin_prune)]
        fn $name() $body
    };
}

/// consumer root: three pops; up to five pushes land at any atomic step of the pops
fn consumer_root(depth: usize) {
    let s: usize = kani::any();
    kani::assume(s < BLOCK_SIZE);
    let q = shifted_queue(s);
    unsafe {
        Q = &q;
        MAXD = depth;
        PUSH_LEFT = 5;
        np::HOOK = Some(hook);
    }
    consumer_pop();
    hook();
    consumer_pop();
    hook();
    consumer_pop();
    unsafe {
        np::HOOK = None;
        while PUSH_LEFT > 0 {
            PUSH_LEFT -= 1;
            producer_push();
        }
        let mut i = 0;
        while i < 5 {
            consumer_pop();
            i += 1;
        }
        assert!(POPPED == 5, "C03: a pushed value was never delivered");
        assert!((*Q).pop().is_none());
        kani::cover!(np::PREEMPTS >= 2, "two pushes landed inside pops");
    }
    std::mem::forget(q);
}
np_harness! { #[kani::unwind(7)] fn c03_spsc_np_consumer_root_d1() { consumer_root(1) } }
np_harness! { #[kani::unwind(7)] fn c03_spsc_np_consumer_root_d2() { consumer_root(2) } }

/// producer root: five pushes (one block boundary, node allocation / recycling); the consumer's
/// whole pops land at any atomic step of the pushes
fn producer_root(depth: usize) {
    let s: usize = kani::any();
    kani::assume(s < BLOCK_SIZE);
    let q = shifted_queue(s);
    unsafe {
        Q = &q;
        MAXD = depth;
        POP_LEFT = 4;
        np::HOOK = Some(hook);
    }
    let mut i = 0;
    while i < 5 {
        producer_push();
        hook();
        i += 1;
    }
    unsafe {
        np::HOOK = None;
        let mut i = 0;
        while i < 6 {
            consumer_pop();
            i += 1;
        }
        assert!(POPPED == 5, "C03: a pushed value was never delivered");
        kani::cover!(np::PREEMPTS >= 2, "two pops landed inside pushes");
    }
    std::mem::forget(q);
}
np_harness! { #[kani::unwind(7)] fn c03_spsc_np_producer_root_d1() { producer_root(1) } }
np_harness! { #[kani::unwind(7)] fn c03_spsc_np_producer_root_d2() { producer_root(2) } }
