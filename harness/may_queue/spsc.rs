// harnesses for may_queue/src/spsc.rs (child module, cfg(kani) only)
