// harnesses for may_queue/src/mpsc_list_v1.rs (child module, cfg(kani) only)
