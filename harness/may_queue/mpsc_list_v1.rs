// C19: harnesses over the real may_queue/src/mpsc_list_v1.rs (child module, cfg(kani) only).
//
// Real code: Queue::{new, push, pop, pop_if, peek, is_empty}, Entry::{remove, is_link, drop},
// Node::new.  Stubbed: AtomicPtr operations of the list (schedule point + effect), Backoff::snooze
// (= the producer between `head.swap` and `prev.next.store` must progress: pruned when it is
// the pre-empted one).  CBMC's use-after-free / double-free checks are on.
use super::*;
use crate::verif_shim::{np, sa};

static mut Q: *const Queue<u8> = std::ptr::null();
static mut MAXD: usize = 1;
// entries are numbered 1.. in push-start order; CONSUMED[i]: 0 = live, 1 = popped, 2 = removed
static mut PUSHED: u8 = 0;
static mut PUSH_DONE: u8 = 0;
static mut PUSH_LEFT: usize = 0;
static mut CONSUMED: [u8; 6] = [0; 6];
static mut HANDLE: [Option<Entry<u8>>; 6] = [None, None, None, None, None, None];
static mut LAST_POPPED: u8 = 0;
static mut LIVE: u8 = 0; // entries pushed (completed) and not consumed, as the reference list sees it
static mut CONS_LEFT: usize = 0;
static mut IN_CONS: bool = false;
static mut IN_PUSH: bool = false;

fn do_push() {
    unsafe {
        PUSHED += 1;
        let v = PUSHED;
        let empty_at_start = LIVE == 0 && PUSH_DONE + 0 == consumed_count();
        IN_PUSH = true;
        let (h, is_head) = (*Q).push(v);
        IN_PUSH = false;
        PUSH_DONE += 1;
        LIVE += 1;
        // the head report identifies the pushes that found the list empty.  "Found" is decided
        // at the push's linearization point, the head.swap: the list is empty there iff every
        // entry linked before has been consumed (recorded by the swap stub).  Checked unless a
        // consumer operation ran between the swap and the return (it may already have consumed
        // this very entry, which changes what `tail` the push reads back).
        if SWAP_SEEN && np::PREEMPTS == PREEMPTS_AT_SWAP {
            assert!(is_head == EMPTY_AT_SWAP, "C19: push's head report is wrong: it must be true exactly when the push found the list empty");
        } else if np::PREEMPTS == PREEMPTS_AT_PUSH_START {
            assert!(is_head == empty_at_start, "C19: push reported is_head although the list was not empty (or vice versa)");
        }
        SWAP_SEEN = false;
        HANDLE[v as usize] = Some(h);
    }
}
static mut PREEMPTS_AT_PUSH_START: usize = 0;
static mut SWAP_SEEN: bool = false;
static mut EMPTY_AT_SWAP: bool = false;
static mut PREEMPTS_AT_SWAP: usize = 0;
static mut SWAPPED: u8 = 0; // pushes that have passed their head.swap
/// stub for AtomicPtr::swap (only `head.swap` in push uses it): schedule point, then record
/// whether the list is empty at this linearization point, then the swap itself
fn head_swap_stub<T>(a: &std::sync::atomic::AtomicPtr<T>, v: *mut T, _o: std::sync::atomic::Ordering) -> *mut T {
    np::point();
    unsafe {
        EMPTY_AT_SWAP = consumed_count() == SWAPPED;
        SWAPPED += 1;
        SWAP_SEEN = true;
        PREEMPTS_AT_SWAP = np::PREEMPTS;
        let p = a.as_ptr();
        let old = *p;
        *p = v;
        old
    }
}
fn consumed_count() -> u8 {
    unsafe {
        let mut n = 0;
        let mut i = 1;
        while i < 6 {
            if CONSUMED[i] != 0 {
                n += 1;
            }
            i += 1;
        }
        n
    }
}
fn consume(v: u8, how: u8) {
    unsafe {
        assert!(v >= 1 && v <= PUSHED, "C19: an entry was returned that was never pushed");
        assert!(CONSUMED[v as usize] == 0, "C19: an entry was consumed twice (pop and remove, or popped twice)");
        CONSUMED[v as usize] = how;
        LIVE -= 1;
    }
}
fn do_pop() {
    unsafe {
        let done_at_start = PUSH_DONE;
        let consumed_at_start = consumed_count();
        IN_CONS = true;
        let r = (*Q).pop();
        IN_CONS = false;
        match r {
            None => assert!(done_at_start == consumed_at_start, "C19: pop returned None although a completed push was unconsumed"),
            Some(v) => {
                consume(v, 1);
                assert!(v > LAST_POPPED, "C19: pop order is not push order");
                // everything older is already consumed
                let mut i = 1;
                while i < 6 {
                    if (i as u8) < v {
                        assert!(CONSUMED[i] != 0, "C19: pop skipped an older live entry");
                    }
                    i += 1;
                }
                LAST_POPPED = v;
            }
        }
    }
}
/// remove through the handle of entry `i` (the consumer thread does this in the timer code)
fn do_remove(i: usize) {
    unsafe {
        if let Some(h) = HANDLE[i].take() {
            let was = CONSUMED[i];
            IN_CONS = true;
            let r = h.remove();
            IN_CONS = false;
            match r {
                Some(v) => {
                    assert!(v as usize == i, "C19: remove returned another entry's value");
                    assert!(was == 0, "C19: remove returned an entry that had already been consumed");
                    consume(v, 2);
                }
                None => {} // already consumed, or the newest entry (left for pop): list unchanged
            }
        }
    }
}
fn hook() {
    unsafe {
        if np::DEPTH < MAXD {
            if PUSH_LEFT > 0 && !IN_PUSH && kani::any() {
                PUSH_LEFT -= 1;
                np::nested(do_push);
            }
            if np::DEPTH < MAXD && CONS_LEFT > 0 && !IN_CONS && kani::any() {
                CONS_LEFT -= 1;
                if kani::any() {
                    np::nested(do_pop);
                } else {
                    let i: usize = kani::any();
                    kani::assume(i >= 1 && i <= 3);
                    np::nested(|| do_remove(i));
                }
            }
        }
    }
}
fn snooze_prune(_b: &Backoff) {
    kani::assume(false);
}
/// quiescence: everything pushed is consumed exactly once by pop or remove
fn drain_and_check() {
    unsafe {
        np::HOOK = None;
        while PUSH_LEFT > 0 {
            PUSH_LEFT -= 1;
            do_push();
        }
        let mut i = 0;
        while i < 5 {
            do_pop();
            i += 1;
        }
        assert!(consumed_count() == PUSHED, "C19: a pushed entry was never consumed (lost)");
        assert!((*Q).is_empty());
        // dropping the handles of consumed entries frees each node exactly once (CBMC checks)
        let mut i = 1;
        while i < 6 {
            let h = HANDLE[i].take();
            drop(h);
            i += 1;
        }
    }
}

/// sequential histories: 6 solver-chosen operations from {push, pop, pop_if(pred), peek,
/// remove(handle i), drop(handle i)} against the reference list
#[kani::proof]
#[kani::unwind(7)]
fn c19_list_seq() {
    let q: Queue<u8> = Queue::new();
    unsafe { Q = &q };
    let mut n = 0;
    while n < 5 {
        let op: u8 = kani::any();
        unsafe {
            match op {
                0 => {
                    if PUSHED < 3 {
                        PREEMPTS_AT_PUSH_START = np::PREEMPTS;
                        do_push();
                    }
                }
                1 => do_pop(),
                2 => {
                    // pop_if with a predicate on the value
                    let limit: u8 = kani::any();
                    let oldest = oldest_live();
                    let r = q.pop_if(&|v: &u8| *v <= limit);
                    match r {
                        Some(v) => {
                            assert!(v == oldest && v <= limit, "C19: pop_if returned something else than the oldest live entry");
                            consume(v, 1);
                            LAST_POPPED = v;
                        }
                        None => assert!(oldest == 0 || oldest > limit, "C19: pop_if refused an entry its predicate accepts"),
                    }
                }
                3 => {
                    let oldest = oldest_live();
                    match q.peek() {
                        Some(v) => assert!(*v == oldest),
                        None => assert!(oldest == 0),
                    }
                }
                4 => {
                    let i: usize = kani::any();
                    kani::assume(i >= 1 && i <= 3);
                    do_remove(i);
                }
                _ => {
                    let i: usize = kani::any();
                    kani::assume(i >= 1 && i <= 3);
                    // is_link is true exactly for entries still linked (live, or the current sentinel)
                    let h = HANDLE[i].take();
                    drop(h);
                }
            }
        }
        n += 1;
    }
    unsafe {
        kani::cover!(CONSUMED[2] == 2 && PUSHED >= 3, "a middle entry was removed");
        kani::cover!(CONSUMED[1] == 2 && CONSUMED[2] == 1, "head removed, next popped");
    }
    drain_and_check();
    std::mem::forget(q);
}
fn oldest_live() -> u8 {
    unsafe {
        let mut i = 1;
        while i < 6 {
            if (i as u8) <= PUSH_DONE && CONSUMED[i] == 0 {
                return i as u8;
            }
            i += 1;
        }
        0
    }
}

macro_rules! np_harness {
    ($(#[$m:meta])* fn $name:ident() $body:block) => {
        #[kani::proof]
        $(#[$m])*
        #[kani::stub(core::sync::atomic::Atomic::<*mut T>::load, sa::ptr_load)]
        #[kani::stub(core::sync::atomic::Atomic::<*mut T>::store, sa::ptr_store)]
        #[kani::stub(core::sync::atomic::Atomic::<*mut T>::swap, head_swap_stub)]
        #[kani::stub(crossbeam_utils::Backoff::snooze, snooze_prune)]
        fn $name() $body
    };
}

/// consumer root: with three entries queued, the consumer does remove(i) then pop (solver-chosen
/// i: head, middle, last); up to two pushes land at any atomic step (incl. the remove of the
/// newest entry racing with the push that links behind it)
fn consumer_root(depth: usize) {
    let q: Queue<u8> = Queue::new();
    unsafe {
        Q = &q;
        MAXD = depth;
        PREEMPTS_AT_PUSH_START = usize::MAX;
    }
    let pre: u8 = kani::any();
    kani::assume(pre >= 1 && pre <= 3);
    let mut k = 0;
    while k < pre {
        do_push();
        k += 1;
    }
    unsafe {
        PUSH_LEFT = 2;
        np::HOOK = Some(hook);
    }
    let i: usize = kani::any();
    kani::assume(i >= 1 && i <= 3);
    do_remove(i);
    hook();
    do_pop();
    unsafe {
        kani::cover!(np::PREEMPTS > 0 && CONSUMED[i] == 2, "a push landed inside a successful remove");
        kani::cover!(np::PREEMPTS > 0 && CONSUMED[i] == 0 && i as u8 == pre, "remove of the newest entry raced with a push and left it for pop");
    }
    drain_and_check();
    std::mem::forget(q);
}
np_harness! { #[kani::unwind(7)] fn c19_list_np_consumer_root_d1() { consumer_root(1) } }
np_harness! { #[kani::unwind(7)] fn c19_list_np_consumer_root_d2() { consumer_root(2) } }

/// producer root: a push (between head.swap and prev.next.store the entry is not yet linked);
/// the consumer's whole pop / remove and a second push land at any of its atomic steps
fn producer_root(depth: usize) {
    let q: Queue<u8> = Queue::new();
    unsafe {
        Q = &q;
        MAXD = depth;
        PREEMPTS_AT_PUSH_START = usize::MAX;
    }
    let pre: u8 = kani::any();
    kani::assume(pre <= 2);
    let mut k = 0;
    while k < pre {
        do_push();
        k += 1;
    }
    unsafe {
        PUSH_LEFT = 1;
        CONS_LEFT = 2;
        np::HOOK = Some(hook);
    }
    do_push();
    unsafe {
        kani::cover!(np::PREEMPTS >= 2, "consumer operations landed inside the push");
    }
    drain_and_check();
    std::mem::forget(q);
}
np_harness! { #[kani::unwind(7)] fn c19_list_np_producer_root_d1() { producer_root(1) } }
np_harness! { #[kani::unwind(7)] fn c19_list_np_producer_root_d2() { producer_root(2) } }
