// C04: harnesses over the real may_queue/src/spmc.rs (child module, cfg(kani) only).
//
// Real code: Queue::{new, push, pop, local_pop, is_empty}, BlockNode::{new, set, get,
// mark_slots_read}, BlockPtr::{pack, unpack}.  Under cfg(kani) blocks have 4 slots instead of 32
// (retargeted constant, same code): block boundary, the bit-63 "switching" head, the over-claim ->
// head restore path and block freeing are reached with 5-6 tasks.
// Stubbed: std atomics of the queue (schedule point + effect); Backoff::spin and the 10 ms sleep
// poll (= somebody else must make progress: pruned when that party is the pre-empted one).
use super::*;
use crate::verif_shim::{np, sa};

static mut Q: *const Queue<u8> = std::ptr::null();
static mut MAXD: usize = 1;
static mut STEAL_LEFT: usize = 0; // whole stealer pops that may still be nested
static mut OWNER_LEFT: usize = 0; // owner operations that may be nested into a stealer (push, push, local_pop)
static mut PUSHED: u8 = 0;
static mut GOT: [u8; 8] = [0; 8]; // how many times task i was obtained by anybody
static mut OWNER_LAST: u8 = 0; // last task the owner popped itself (must increase)
static mut TOTAL_GOT: u8 = 0;
static mut IN_OWNER: bool = false;
static mut OWNER_POPS_LAST: bool = true; // the last nested owner operation is a local_pop

fn record(v: u8) {
    unsafe {
        assert!(v >= 1 && v <= PUSHED, "C04: a task was obtained that was never pushed (uninitialised slot?)");
        GOT[v as usize] += 1;
        assert!(GOT[v as usize] == 1, "C04: a task was obtained twice");
        TOTAL_GOT += 1;
    }
}
fn owner_push() {
    unsafe {
        PUSHED += 1;
        IN_OWNER = true;
        (*Q).push(PUSHED);
        IN_OWNER = false;
    }
}
fn owner_pop() {
    unsafe {
        IN_OWNER = true;
        let r = (*Q).local_pop();
        IN_OWNER = false;
        if let Some(v) = r {
            record(v);
            assert!(v > OWNER_LAST, "C04: the owner's own pops are not in push order");
            OWNER_LAST = v;
        }
    }
}
fn stealer_pop() {
    unsafe {
        if let Some(v) = (*Q).pop() {
            record(v);
        }
    }
}
fn owner_next() {
    unsafe {
        OWNER_LEFT -= 1;
        if OWNER_LEFT == 0 && OWNER_POPS_LAST {
            owner_pop();
        } else {
            owner_push();
        }
    }
}
fn hook() {
    unsafe {
        if np::DEPTH < MAXD {
            if STEAL_LEFT > 0 && kani::any() {
                STEAL_LEFT -= 1;
                np::nested(stealer_pop);
            }
            if np::DEPTH < MAXD && OWNER_LEFT > 0 && !IN_OWNER && kani::any() {
                np::nested(owner_next);
            }
        }
    }
}
fn backoff_prune(_b: &Backoff) {
    kani::assume(false);
}
fn sleep_prune(_d: std::time::Duration) {
    kani::assume(false);
}

macro_rules! np_harness {
    ($(#[$m:meta])* fn $name:ident() $body:block) => {
        #[kani::proof]
        $(#[$m])*
        #[kani::stub(core::sync::atomic::Atomic::<*mut T>::load, sa::ptr_load)]
        #[kani::stub(core::sync::atomic::Atomic::<*mut T>::store, sa::ptr_store)]
        #[kani::stub(core::sync::atomic::Atomic::<*mut T>::compare_exchange_weak, sa::ptr_cas)]
        #[kani::stub(core::sync::atomic::Atomic::<usize>::load, sa::usize_load)]
        #[kani::stub(core::sync::atomic::Atomic::<usize>::store, sa::usize_store)]
        #[kani::stub(core::sync::atomic::Atomic::<usize>::fetch_sub, sa::usize_fetch_sub)]
        #[kani::stub(crossbeam_utils::Backoff::spin, backoff_prune)]
        #[kani::stub(crossbeam_utils::Backoff::snooze, backoff_prune)]
        #[kani::stub(std::thread::sleep, sleep_prune)]
        fn $name() $body
    };
}

/// quiescence: the owner drains what is left; every task pushed was obtained exactly once
fn drain_and_check(max_tasks: usize) {
    unsafe {
        np::HOOK = None;
        let mut i = 0;
        while i < max_tasks {
            owner_pop();
            i += 1;
        }
        assert!(TOTAL_GOT == PUSHED, "C04: a pushed task was never obtained by anybody (lost)");
        assert!((*Q).is_empty());
    }
}

/// sequential owner-only history across a block boundary and a block free
#[kani::proof]
#[kani::unwind(10)]
fn c04_spmc_seq_owner() {
    let q: Queue<u8> = Queue::new();
    unsafe { Q = &q };
    let mut i = 0;
    while i < 7 {
        if kani::any() {
            owner_push();
        } else {
            owner_pop();
        }
        i += 1;
    }
    unsafe {
        kani::cover!(PUSHED >= 5 && TOTAL_GOT >= 2, "owner crossed a block boundary with pops in between");
        kani::cover!(PUSHED == 3 && TOTAL_GOT == 3, "queue emptied inside a block");
    }
    drain_and_check(7);
    std::mem::forget(q);
}

/// owner root: push x3, local_pop, push x2 (crosses the 4-slot boundary), local_pop; up to two
/// whole stealer pops land at any atomic step of the owner's operations
fn owner_root(depth: usize) {
    let q: Queue<u8> = Queue::new();
    unsafe {
        Q = &q;
        MAXD = depth;
        STEAL_LEFT = 2;
        np::HOOK = Some(hook);
    }
    owner_push();
    owner_push();
    owner_push();
    hook();
    owner_pop();
    owner_push();
    owner_push();
    hook();
    owner_pop();
    unsafe {
        kani::cover!(STEAL_LEFT == 0 && np::PREEMPTS == 2, "both steals landed inside owner operations");
    }
    drain_and_check(5);
    std::mem::forget(q);
}
np_harness! { #[kani::unwind(7)] fn c04_spmc_np_owner_root_d1() { owner_root(1) } }
np_harness! { #[kani::unwind(7)] fn c04_spmc_np_owner_root_d2() { owner_root(2) } }

/// stealer root (the stalled stealer): the queue holds `k` tasks at the end of a block; one
/// stealer pop runs with the owner's push/push/local_pop and a second stealer's whole pop landing
/// at any of its atomic steps (stale head, CAS on bit 63, over-claim -> restore)
fn stealer_root(depth: usize, kmin: u8, owner_ops: usize) {
    let q: Queue<u8> = Queue::new();
    unsafe {
        Q = &q;
        MAXD = depth;
    }
    // pre-state by real operations (no schedule points yet): 3 pushed, k of them popped
    owner_push();
    owner_push();
    owner_push();
    let k: u8 = kani::any();
    kani::assume(k >= kmin && k <= 3);
    let mut i = 0;
    while i < k {
        owner_pop();
        i += 1;
    }
    unsafe {
        STEAL_LEFT = 1;
        OWNER_LEFT = owner_ops;
        OWNER_POPS_LAST = owner_ops >= 3;
        np::HOOK = Some(hook);
    }
    stealer_pop();
    hook();
    stealer_pop();
    unsafe {
        kani::cover!(np::PREEMPTS >= 2, "owner operations / second stealer landed inside the stealer's pop");
        np::HOOK = None;
        while OWNER_LEFT > 0 {
            owner_next();
        }
    }
    drain_and_check(5);
    std::mem::forget(q);
}
np_harness! { #[kani::unwind(6)] fn c04_spmc_np_stealer_root_k3_d1() { stealer_root(1, 3, 1) } }
np_harness! { #[kani::unwind(7)] fn c04_spmc_np_stealer_root_k2_d1() { stealer_root(1, 2, 2) } }
np_harness! { #[kani::unwind(7)] fn c04_spmc_np_stealer_root_d1() { stealer_root(1, 0, 3) } }
np_harness! { #[kani::unwind(7)] fn c04_spmc_np_stealer_root_d2() { stealer_root(2, 2, 2) } }
