// harnesses for may_queue/src/spmc.rs (child module, cfg(kani) only)
