// harnesses for may_queue/src/mpsc_list.rs (child module, cfg(kani) only)
