// harnesses for may_queue/src/mpsc.rs (child module, cfg(kani) only)
