// C03 (mpsc half): harnesses over the real may_queue/src/mpsc.rs (child module, cfg(kani) only).
//
// Real code: Queue::{new, push, push_index, pop, bulk_pop, fast_bulk_pop, peek, len, is_empty},
// BlockNode::{new_box, new, set, try_get, get, peek, wait_next_block, copy_to_bulk},
// BlockPtr::{pack, unpack}, bulk_end.  Stubbed: the std atomics of the queue (schedule point +
// effect), Backoff::spin / hint::spin_loop (= "somebody else must make progress": pruned when the
// awaited party is the pre-empted one).
use super::*;
use crate::verif_shim::{np, sa};
use std::sync::atomic::Ordering;

/// place an EMPTY queue at slot offset `id` of its first block (the state every history of
/// `id` push/pop pairs reaches: head.index == id, tail == pack(first block, id); blocks as new()
/// built them).  Walking there by operations costs > 15 min of symbolic execution.
fn queue_at_offset(id: usize) -> Queue<u8> {
    let q: Queue<u8> = Queue::new();
    let blk = unsafe { q.head.block.unsync_load() };
    unsafe {
        *(*q.head.index).as_ptr() = id;
        *(*q.tail.0).as_ptr() = BlockPtr::pack(blk, id);
    }
    q
}
/// `ANY` = every offset at once (symbolic index into the 64-slot array: tens of millions of
/// clauses, thorough tier only); otherwise the concrete offset (quick tier: first slot and the
/// last two slots of a block, one harness each - concrete indices fold to small formulas)
const ANY: usize = usize::MAX;
fn any_offset(sel: usize) -> usize {
    if sel != ANY {
        return sel;
    }
    let id: usize = kani::any();
    kani::assume(id < BLOCK_SIZE);
    id
}

// ---------------------------------------------------------------------------------------------
// H-seq: sequential histories against a reference FIFO, from every slot offset
// ---------------------------------------------------------------------------------------------
fn seq_fifo(sel: usize) {
    let id = any_offset(sel);
    let q = queue_at_offset(id);
    let a: u8 = kani::any();
    let b: u8 = kani::any();
    let c: u8 = kani::any();
    assert!(q.pop().is_none() && q.is_empty() && q.len() == 0);
    q.push(a);
    q.push(b);
    assert!(q.len() == 2 && !q.is_empty());
    assert!(unsafe { q.peek() } == Some(&a));
    assert!(q.pop() == Some(a), "C03: pop does not return the oldest value");
    q.push(c);
    assert!(q.len() == 2);
    assert!(q.pop() == Some(b));
    assert!(q.pop() == Some(c));
    assert!(q.pop().is_none(), "C03: pop invented a value");
    assert!(q.is_empty());
    kani::cover!(a != b && b != c, "distinct values went through in order");
    kani::cover!(sel != ANY || id == BLOCK_MASK, "queue started at the last slot of a block");
    std::mem::forget(q);
}
macro_rules! seq_harness {
    ($f:ident, $u:expr, $($name:ident = $sel:expr),*) => {
        $( #[kani::proof] #[kani::unwind($u)] fn $name() { $f($sel) } )*
    };
}
seq_harness!(seq_fifo, 4, c03_mpsc_seq_fifo_o0 = 0, c03_mpsc_seq_fifo_o62 = BLOCK_MASK - 1, c03_mpsc_seq_fifo_o63 = BLOCK_MASK,
    c03_mpsc_seq_fifo_any = ANY);

/// bulk_pop: returns the queued values in order, never past a block end, nothing lost between
/// two bulk_pops, and queue drop afterwards frees exactly the two live blocks
fn seq_bulk(sel: usize) {
    let id = any_offset(sel);
    let q = queue_at_offset(id);
    let a: u8 = kani::any();
    let b: u8 = kani::any();
    let c: u8 = kani::any();
    q.push(a);
    q.push(b);
    q.push(c);
    let v1 = q.bulk_pop();
    assert!(!v1.is_empty(), "C03: bulk_pop returned nothing although values are queued");
    assert!(v1[0] == a);
    let n1 = v1.len();
    assert!(n1 <= 3);
    if n1 >= 2 {
        assert!(v1[1] == b);
    }
    if n1 == 3 {
        assert!(v1[2] == c);
    }
    // a batch never crosses the block end
    assert!(n1 <= BLOCK_SIZE - id);
    let v2 = q.bulk_pop();
    let n2 = v2.len();
    if n1 < 3 {
        assert!(n2 >= 1, "C03: values left behind by bulk_pop are lost");
        assert!(v2[0] == if n1 == 1 { b } else { c });
    }
    let v3 = q.bulk_pop();
    assert!(n1 + n2 + v3.len() == 3, "C03: bulk_pop lost or duplicated values");
    assert!(q.bulk_pop().is_empty());
    kani::cover!(n1 == 1 || id != BLOCK_MASK, "batch cut at the block end");
    kani::cover!(n1 == 3 || id >= BLOCK_MASK - 1, "whole content in one batch");
    std::mem::forget(v1);
    std::mem::forget(v2);
    std::mem::forget(v3);
    std::mem::forget(q);
}
seq_harness!(seq_bulk, 5, c03_mpsc_seq_bulk_o0 = 0, c03_mpsc_seq_bulk_o61 = BLOCK_MASK - 2, c03_mpsc_seq_bulk_o62 = BLOCK_MASK - 1,
    c03_mpsc_seq_bulk_o63 = BLOCK_MASK, c03_mpsc_seq_bulk_any = ANY);

// ---------------------------------------------------------------------------------------------
// H-np: one consumer against producers, schedules chosen by the solver
// ---------------------------------------------------------------------------------------------
static mut Q: *const Queue<u8> = std::ptr::null();
static mut MAXD: usize = 1;
static mut PUSH_LEFT: usize = 0; // pushes of the (nested) producer not yet started: values 1, 2
static mut PUSH_STARTED: usize = 0;
static mut PUSH_DONE: usize = 0;
static mut POP_ALLOWED: usize = 0; // whole consumer pops that may be nested into a producer
static mut POPPED: usize = 0; // values obtained by the consumer so far
static mut NEXT_EXPECTED: u8 = 1;
static mut IN_CONSUMER: bool = false;
static mut ORDERED: bool = true; // single producer: values must come out as 1, 2
static mut GOT: [bool; 4] = [false; 4];
static mut IN_PRODUCER: usize = 0;

fn producer_push() {
    unsafe {
        PUSH_LEFT -= 1;
        PUSH_STARTED += 1;
        let v = PUSH_STARTED as u8;
        IN_PRODUCER += 1;
        (*Q).push(v);
        IN_PRODUCER -= 1;
        PUSH_DONE += 1;
    }
}
/// one whole pop of the consumer with the single-consumer linearizability oracle
fn consumer_pop() {
    unsafe {
        let done_at_start = PUSH_DONE;
        let popped_before = POPPED;
        IN_CONSUMER = true;
        let r = (*Q).pop();
        IN_CONSUMER = false;
        match r {
            None => assert!(
                done_at_start <= popped_before,
                "C03: pop returned None although a completed push had not been consumed (value lost / not visible)"
            ),
            Some(v) => {
                assert!(v >= 1 && (v as usize) <= PUSH_STARTED, "C03: pop returned a value that was never pushed");
                if ORDERED {
                    assert!(v == NEXT_EXPECTED, "C03: pop returned a value out of order or twice");
                }
                assert!(!GOT[v as usize], "C03: a value was popped twice");
                GOT[v as usize] = true;
                NEXT_EXPECTED += 1;
                POPPED += 1;
            }
        }
    }
}
fn hook() {
    unsafe {
        if np::DEPTH < MAXD {
            if PUSH_LEFT > 0 && IN_PRODUCER <= 1 && kani::any() {
                np::nested(producer_push);
            }
            if np::DEPTH < MAXD && POP_ALLOWED > 0 && !IN_CONSUMER && kani::any() {
                POP_ALLOWED -= 1;
                np::nested(consumer_pop);
            }
        }
    }
}
/// an unsuccessful poll: the awaited write can only come from a pre-empted operation
fn spin_prune() {
    kani::assume(false);
}
fn backoff_prune(_b: &Backoff) {
    kani::assume(false);
}

macro_rules! np_harness {
    ($(#[$m:meta])* fn $name:ident() $body:block) => {
        #[kani::proof]
        $(#[$m])*
        #[kani::stub(core::sync::atomic::Atomic::<*mut T>::load, sa::ptr_load)]
        #[kani::stub(core::sync::atomic::Atomic::<*mut T>::store, sa::ptr_store)]
        #[kani::stub(core::sync::atomic::Atomic::<*mut T>::compare_exchange_weak, sa::ptr_cas)]
        #[kani::stub(core::sync::atomic::Atomic::<usize>::load, sa::usize_load)]
        #[kani::stub(core::sync::atomic::Atomic::<usize>::store, sa::usize_store)]
        #[kani::stub(crossbeam_utils::Backoff::spin, backoff_prune)]
        #[kani::stub(crossbeam_utils::Backoff::snooze, backoff_prune)]
        #[kani::stub(std::hint::spin_loop, spin_prune)]
        fn $name() $body
    };
}

/// consumer is the root: pop, pop (then drain); up to two pushes land at any atomic step of the
/// consumer (and, at depth 2, inside each other)
fn consumer_root(depth: usize, sel: usize) {
    let id = any_offset(sel);
    let q = queue_at_offset(id);
    unsafe {
        Q = &q;
        MAXD = depth;
        PUSH_LEFT = 2;
        np::HOOK = Some(hook);
    }
    consumer_pop();
    hook();
    consumer_pop();
    // quiescence: remaining pushes, then drain
    unsafe {
        np::HOOK = None;
        while PUSH_LEFT > 0 {
            producer_push();
        }
        consumer_pop();
        consumer_pop();
        assert!(POPPED == 2, "C03: a pushed value was never delivered");
        assert!((*Q).pop().is_none());
        kani::cover!(np::PREEMPTS > 0, "a push landed inside a pop");
        kani::cover!(np::PREEMPTS == 2, "both pushes were nested");
    }
    std::mem::forget(q);
}
np_harness! { #[kani::unwind(4)] fn c03_mpsc_np_consumer_root_o0_d1() { consumer_root(1, 0) } }
np_harness! { #[kani::unwind(4)] fn c03_mpsc_np_consumer_root_o62_d1() { consumer_root(1, BLOCK_MASK - 1) } }
np_harness! { #[kani::unwind(4)] fn c03_mpsc_np_consumer_root_o63_d1() { consumer_root(1, BLOCK_MASK) } }
np_harness! { #[kani::unwind(4)] fn c03_mpsc_np_consumer_root_o62_d2() { consumer_root(2, BLOCK_MASK - 1) } }
np_harness! { #[kani::unwind(4)] fn c03_mpsc_np_consumer_root_o63_d2() { consumer_root(2, BLOCK_MASK) } }

/// a producer is the root: push(1) (incl. the last-slot path: set, new_box, wait_next_block,
/// next.store, tail.store); a second producer's whole push and the consumer's whole pops land at
/// any of its atomic steps.
fn producer_root(depth: usize, sel: usize) {
    let id = any_offset(sel);
    let q = queue_at_offset(id);
    unsafe {
        Q = &q;
        MAXD = depth;
        PUSH_LEFT = 2;
        POP_ALLOWED = 2;
        np::HOOK = Some(hook);
    }
    // two producers, one value each (numbered in start order): either may linearize first, so
    // the oracle is "each value exactly once, None only if nothing completed is unconsumed"
    unsafe { ORDERED = false };
    producer_push();
    unsafe {
        np::HOOK = None;
        while PUSH_LEFT > 0 {
            producer_push();
        }
        let mut i = 0;
        while i < 3 {
            consumer_pop();
            i += 1;
        }
        assert!(POPPED == 2, "C03: a pushed value was never delivered");
        let _ = id;
        kani::cover!(np::PREEMPTS > 0, "a pop / second push landed inside a push");
    }
    std::mem::forget(q);
}
np_harness! { #[kani::unwind(5)] fn c03_mpsc_np_producer_root_o0_d1() { producer_root(1, 0) } }
np_harness! { #[kani::unwind(5)] fn c03_mpsc_np_producer_root_o62_d1() { producer_root(1, BLOCK_MASK - 1) } }
np_harness! { #[kani::unwind(5)] fn c03_mpsc_np_producer_root_o63_d1() { producer_root(1, BLOCK_MASK) } }
np_harness! { #[kani::unwind(5)] fn c03_mpsc_np_producer_root_o62_d2() { producer_root(2, BLOCK_MASK - 1) } }
np_harness! { #[kani::unwind(5)] fn c03_mpsc_np_producer_root_o63_d2() { producer_root(2, BLOCK_MASK) } }

