// harnesses for src/local (child module, cfg(kani) only)
