// harnesses for src/cqueue (child module, cfg(kani) only)
