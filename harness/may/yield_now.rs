// (scratch experiments removed)
