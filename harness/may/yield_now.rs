// scratch experiments
#[kani::proof]
#[kani::unwind(5)]
fn exp_other_canceled() {
    let e = std::io::Error::other("Canceled");
    std::mem::forget(e);
}
#[kani::proof]
#[kani::unwind(5)]
fn exp_new_timeout() {
    let e = std::io::Error::new(std::io::ErrorKind::TimedOut, "timeout");
    std::mem::forget(e);
}
