// harnesses for src/yield_now (child module, cfg(kani) only)
