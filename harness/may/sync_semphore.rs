// harnesses for src/sync_semphore (child module, cfg(kani) only)
