// C10 (Semphore half): harnesses over the real src/sync/semphore.rs + SyncBlocker.
// Child module of src/sync/semphore.rs (cfg(kani) only).
//
// Real code: Semphore::{new, wait, wait_timeout, wait_timeout_impl, try_wait, post, wakeup_one,
// get_value}, SyncBlocker::{current, park, unpark, is_unparked, set_release, take_release}.
// Models: waiter queue (crossbeam SegQueue, trusted) = FIFO; Blocker::{park, unpark} = one wake
// token + "a timed park may give up at any moment" (contract decided for the real Park in
// C02 / C08).
use super::*;
use crate::sync::blocking::Blocker;
use crate::verif_shim::{np, rt, sa};
use std::panic as stdpanic;

static mut S: *const Semphore = std::ptr::null();
static mut MAXD: usize = 1;
static mut POST_LEFT: usize = 0;
static mut POSTS: isize = 0; // posts started
static mut W2_LEFT: bool = false; // a second (non-blocking) taker: try_wait
static mut SUCCESSES: isize = 0;
static mut TIMED_OUT: bool = false;
static mut ROOT_PARKED: bool = false;
static mut QTAB: [u64; 4] = [0; 4];
static mut QH: usize = 0;
static mut QT: usize = 0;

fn is_coroutine_false() -> bool {
    false
}
fn q_push<T>(_q: &SegQueue<T>, v: T) {
    np::point();
    assert!(std::mem::size_of::<T>() == 8);
    unsafe {
        assert!(QT < 4);
        QTAB[QT] = std::mem::transmute_copy::<T, u64>(&v);
        QT += 1;
    }
    std::mem::forget(v);
}
fn q_pop<T>(_q: &SegQueue<T>) -> Option<T> {
    np::point();
    unsafe {
        if QH == QT {
            None
        } else {
            let r = std::mem::transmute_copy::<u64, T>(&QTAB[QH]);
            QH += 1;
            Some(r)
        }
    }
}
fn run_post() {
    unsafe {
        POST_LEFT -= 1;
        POSTS += 1;
        (*S).post();
    }
}
fn run_w2() {
    unsafe {
        W2_LEFT = false;
        if (*S).try_wait() {
            SUCCESSES += 1;
        }
    }
}
fn hook() {
    unsafe {
        if np::DEPTH < MAXD {
            if POST_LEFT > 0 && kani::any() {
                np::nested(run_post);
            }
            if np::DEPTH < MAXD && W2_LEFT && kani::any() {
                np::nested(run_w2);
            }
        }
    }
}
fn unpark_model(b: &Blocker) {
    np::point();
    unsafe { *crate::sync::blocking::verif_kani::blocker_token(b) = 1 };
}
fn park_model(b: &Blocker, timeout: Option<Duration>) -> Result<(), ParkError> {
    np::point();
    let tok = crate::sync::blocking::verif_kani::blocker_token(b);
    unsafe {
        if *tok != 0 {
            *tok = 0;
            return Ok(());
        }
        assert!(np::DEPTH == 0, "model: only the root waiter blocks");
        // the timer may win the race against a later post
        if CANCEL_MODE && kani::any() {
            TIMED_OUT = true;
            return Err(ParkError::Canceled);
        }
        if timeout.is_some() && kani::any() {
            TIMED_OUT = true;
            return Err(ParkError::Timeout);
        }
        ROOT_PARKED = true;
        // parked: the posters that are left act now (a blocked frame is inert)
        while *tok == 0 && POST_LEFT > 0 {
            run_post();
        }
        if *tok != 0 {
            if CANCEL_MODE && kani::any() {
                // the cancel arrives together with the wake-up: Park reports Canceled although
                // the waiter was unparked
                *tok = 0;
                TIMED_OUT = true;
                return Err(ParkError::Canceled);
            }
            *tok = 0;
            return Ok(());
        }
        if CANCEL_MODE {
            TIMED_OUT = true;
            return Err(ParkError::Canceled);
        }
        if timeout.is_some() {
            TIMED_OUT = true;
            return Err(ParkError::Timeout);
        }
        // untimed and nobody is left to post: legitimate only if no permit is owed
        assert!(POSTS + INIT - SUCCESSES <= 0, "C10: a waiter stays parked for ever although permits suffice (permit lost)");
        kani::assume(false);
        Ok(())
    }
}
static mut INIT: isize = 0;
static mut CANCEL_MODE: bool = false; // the waiter is cancelled: its park gives up with Canceled
static mut S_TIMED: bool = false;

macro_rules! sem_harness {
    ($(#[$m:meta])* fn $name:ident() $body:block) => {
        #[kani::proof]
        $(#[$m])*
        #[kani::stub(core::sync::atomic::Atomic::<isize>::fetch_sub, sa::isize_fetch_sub)]
        #[kani::stub(core::sync::atomic::Atomic::<isize>::fetch_add, sa::isize_fetch_add)]
        #[kani::stub(core::sync::atomic::Atomic::<isize>::load, sa::isize_load)]
        #[kani::stub(core::sync::atomic::Atomic::<isize>::compare_exchange, sa::isize_cas)]
        #[kani::stub(core::sync::atomic::Atomic::<bool>::load, sa::bool_load)]
        #[kani::stub(core::sync::atomic::Atomic::<bool>::store, sa::bool_store)]
        #[kani::stub(core::sync::atomic::Atomic::<bool>::swap, sa::bool_swap)]
        #[kani::stub(crossbeam::queue::SegQueue::push, q_push)]
        #[kani::stub(crossbeam::queue::SegQueue::pop, q_pop)]
        #[kani::stub(crate::sync::blocking::Blocker::park, park_model)]
        #[kani::stub(crate::sync::blocking::Blocker::unpark, unpark_model)]
        #[kani::stub(crate::coroutine_impl::is_coroutine, is_coroutine_false)]
        #[kani::stub(std::thread::panicking, np::panicking_stub)]
        #[kani::stub(stdpanic::catch_unwind, rt::catch_unwind_stub)]
        #[kani::stub(stdpanic::take_hook, rt::take_hook_stub)]
        #[kani::stub(stdpanic::set_hook, rt::set_hook_stub)]
        #[kani::stub(std::sync::Arc::drop_slow, rt::arc_drop_slow_stub)]
        fn $name() $body
    };
}

/// root waiter: wait() or wait_timeout(); posters (1-2 posts) and a second taker (try_wait) land
/// at any atomic step - including the steps of the time-out hand-shake after park gave up
fn waiter_vs_posts(depth: usize, posts: usize, with_w2: bool) {
    let init: usize = kani::any();
    kani::assume(init <= 1);
    let s: &'static Semphore = Box::leak(Box::new(Semphore::new(init)));
    let timed: bool = kani::any();
    unsafe {
        S_TIMED = timed;
        S = s;
        MAXD = depth;
        INIT = init as isize;
        POST_LEFT = posts;
        W2_LEFT = with_w2;
        np::HOOK = Some(hook);
    }
    let ok = if timed {
        s.wait_timeout(Duration::from_millis(5))
    } else {
        s.wait();
        true
    };
    after_wait(ok, timed);
}
/// everything that is checked once the waiter's call is over (it returned, or - cancel mode - it
/// left through the cancel panic)
fn after_wait(ok: bool, timed: bool) {
    let s = unsafe { &*S };
    unsafe {
        if ok {
            SUCCESSES += 1;
        }
        assert!(SUCCESSES <= INIT + POSTS, "C10: more successful waits than initial value + posts (permit duplicated)");
        if !ok {
            assert!((timed || CANCEL_MODE) && TIMED_OUT, "C10: wait gave up without a time-out or cancel");
        }
        kani::cover!(!ok && np::PREEMPTS > 0, "time-out raced with a post");
        kani::cover!(ok && ROOT_PARKED, "waiter parked and was woken by a post");
        np::HOOK = None;
        while POST_LEFT > 0 {
            run_post();
        }
        if W2_LEFT {
            run_w2();
        }
        // quiescence: permits conserved.  A waiter that gave up leaves its (released) blocker in
        // the queue and its decrement in the counter; the next post forwards the permit, so the
        // effective value is cnt + queued give-ups.
        let cnt = *s.cnt.as_ptr();
        let stale = (QT - QH) as isize;
        assert!(cnt + stale == INIT + POSTS - SUCCESSES, "C10: permits not conserved at quiescence (lost or duplicated)");
        assert!(stale == 0 || !ok, "C10: a live waiter is left in the queue");
        let expect = INIT + POSTS - SUCCESSES;
        if stale == 0 {
            assert!(s.get_value() as isize == expect);
        }
    }
}
sem_harness! { #[kani::unwind(3)] fn c10_sem_waiter_vs_post_d1() { waiter_vs_posts(1, 1, false) } }
sem_harness! { #[kani::unwind(4)] fn c10_sem_waiter_vs_2posts_w2_d1() { waiter_vs_posts(1, 2, true) } }
sem_harness! { #[kani::unwind(4)] fn c10_sem_waiter_vs_2posts_d2() { waiter_vs_posts(2, 2, false) } }

// ---- C09 (semaphore): a waiter cancelled before / after / together with the post -----------------
fn cancel_panic_final() -> ! {
    unsafe {
        assert!(CANCEL_MODE && TIMED_OUT, "C09: cancel panic in a waiter that was never cancelled");
        after_wait(false, S_TIMED);
        kani::cover!(np::PREEMPTS > 0, "the post landed inside the cancelled waiter's give-up hand-shake");
    }
    kani::assume(false);
    unreachable!()
}
sem_harness! {
    #[kani::unwind(3)]
    #[kani::stub(crate::cancel::trigger_cancel_panic, cancel_panic_final)]
    fn c09_sem_cancelled_waiter_vs_post_d1() {
        unsafe { CANCEL_MODE = true };
        waiter_vs_posts(1, 1, false)
    }
}
