// harnesses for src/sync_mutex (child module, cfg(kani) only)
