// C05 (and the Mutex half of C13): harnesses over the real src/sync/mutex.rs + SyncBlocker +
// poison.rs.  Child module of src/sync/mutex.rs (cfg(kani) only).
//
// Real code: Mutex::{new, lock, try_lock, unlock, unpark_one, is_poisoned}, MutexGuard::{new,
// drop, deref}, SyncBlocker::{current, park, unpark, is_unparked, set_release, take_release},
// Blocker::new, poison::Flag::{borrow, done, get}.
// Models (contracts of the lower layers, DESIGN §3): the waiter queue (may_queue::mpsc) = FIFO,
// decided for the real queue in C03; Blocker::{park, unpark} = one wake token, decided for the
// real Park in C02 (the ThreadPark flavour is trusted).
use super::*;
use crate::sync::blocking::Blocker;
use crate::verif_shim::{np, rt, sa};
use std::panic as stdpanic;

static mut M: *const Mutex<u8> = std::ptr::null();
static mut MAXD: usize = 1;
// the other actor O runs the program [lock, unlock]; the root runs the same program
static mut O_PC: usize = 0; // 0: lock not started, 1: holds the lock, 2: done
static mut O_EXISTS: bool = false;
static mut O_TRY: bool = false; // O uses try_lock instead of lock
static mut O_GUARD: Option<MutexGuard<'static, u8>> = None;
static mut IN_CS: usize = 0;
static mut IN_O: bool = false;
static mut ROOT_PARKED: bool = false;
// waiter queue model: FIFO of 8-byte values
static mut QTAB: [u64; 4] = [0; 4];
static mut QH: usize = 0;
static mut QT: usize = 0;

fn is_coroutine_false() -> bool {
    false
}
fn q_push<T>(_q: &may_queue::mpsc::Queue<T>, v: T) {
    np::point();
    assert!(std::mem::size_of::<T>() == 8);
    unsafe {
        assert!(QT < 4);
        QTAB[QT] = std::mem::transmute_copy::<T, u64>(&v);
        QT += 1;
    }
    std::mem::forget(v);
}
fn q_pop<T>(_q: &may_queue::mpsc::Queue<T>) -> Option<T> {
    np::point();
    unsafe {
        if QH == QT {
            None
        } else {
            let r = std::mem::transmute_copy::<u64, T>(&QTAB[QH]);
            QH += 1;
            Some(r)
        }
    }
}
fn unpark_model(b: &Blocker) {
    np::point();
    unsafe { *crate::sync::blocking::verif_kani::blocker_token(b) = 1 };
}
/// Blocker contract: consume the token, or wait for it.  A waiting *root* lets the other actor
/// run its remaining operations (each with its own schedule points); a waiting nested actor is
/// outside the stack-disciplined class (pruned; the symmetric harness covers it).
fn park_model(b: &Blocker, timeout: Option<std::time::Duration>) -> Result<(), ParkError> {
    np::point();
    let tok = crate::sync::blocking::verif_kani::blocker_token(b);
    unsafe {
        assert!(timeout.is_none());
        if *tok != 0 {
            *tok = 0;
            return Ok(());
        }
        if np::DEPTH > 0 || IN_O {
            kani::assume(false);
        }
        ROOT_PARKED = true;
        // the other actor finishes its program
        while *tok == 0 && O_EXISTS && O_PC < 2 {
            run_o_step();
        }
        assert!(*tok != 0, "C05: a locker stays parked for ever although every earlier holder has released (stranded waiter)");
        *tok = 0;
        Ok(())
    }
}
fn run_o_step() {
    unsafe {
        IN_O = true;
        if O_PC == 0 {
            if O_TRY {
                match (*M).try_lock() {
                    Ok(g) => {
                        enter_cs(&g);
                        O_GUARD = Some(g);
                        O_PC = 1;
                    }
                    Err(TryLockError::WouldBlock) => {
                        assert!(HOLDERS_NOW > 0 || true);
                        O_PC = 2;
                    }
                    Err(TryLockError::Poisoned(e)) => {
                        let g = e.into_inner();
                        enter_cs(&g);
                        O_GUARD = Some(g);
                        O_PC = 1;
                    }
                }
            } else {
                let g = match (*M).lock() {
                    Ok(g) => g,
                    Err(e) => e.into_inner(),
                };
                enter_cs(&g);
                O_GUARD = Some(g);
                O_PC = 1;
            }
        } else if O_PC == 1 {
            let g = O_GUARD.take().unwrap();
            leave_cs(g);
            O_PC = 2;
        }
        IN_O = false;
    }
}
static mut HOLDERS_NOW: usize = 0;
static mut LAST_WRITER: u8 = 0;
fn enter_cs(g: &MutexGuard<'static, u8>) {
    unsafe {
        IN_CS += 1;
        assert!(IN_CS == 1, "C05: two parties are inside the critical section at the same time");
        // data written under the lock by the previous holder is seen by the next one
        assert!(**g == LAST_WRITER, "C05: the next holder does not see the previous holder's write");
    }
}
fn leave_cs(mut g: MutexGuard<'static, u8>) {
    unsafe {
        LAST_WRITER += 1;
        *g = LAST_WRITER;
        IN_CS -= 1;
        drop(g);
    }
}
fn hook() {
    unsafe {
        if np::DEPTH < MAXD && O_EXISTS && O_PC < 2 && !IN_O && kani::any() {
            np::nested(run_o_step);
        }
    }
}

macro_rules! mutex_harness {
    ($(#[$m:meta])* fn $name:ident() $body:block) => {
        #[kani::proof]
        $(#[$m])*
        #[kani::stub(core::sync::atomic::Atomic::<usize>::compare_exchange, sa::usize_cas)]
        #[kani::stub(core::sync::atomic::Atomic::<usize>::fetch_add, sa::usize_fetch_add)]
        #[kani::stub(core::sync::atomic::Atomic::<usize>::fetch_sub, sa::usize_fetch_sub)]
        #[kani::stub(core::sync::atomic::Atomic::<bool>::load, sa::bool_load)]
        #[kani::stub(core::sync::atomic::Atomic::<bool>::store, sa::bool_store)]
        #[kani::stub(core::sync::atomic::Atomic::<bool>::swap, sa::bool_swap)]
        #[kani::stub(may_queue::mpsc::Queue::push, q_push)]
        #[kani::stub(may_queue::mpsc::Queue::pop, q_pop)]
        #[kani::stub(crate::sync::blocking::Blocker::park, park_model)]
        #[kani::stub(crate::sync::blocking::Blocker::unpark, unpark_model)]
        #[kani::stub(crate::sync::blocking::SyncBlocker::take_release, crate::sync::blocking::verif_kani::take_release_never)]
        #[kani::stub(crate::coroutine_impl::is_coroutine, is_coroutine_false)]
        #[kani::stub(std::thread::panicking, np::panicking_stub)]
        #[kani::stub(stdpanic::catch_unwind, rt::catch_unwind_stub)]
        #[kani::stub(stdpanic::take_hook, rt::take_hook_stub)]
        #[kani::stub(stdpanic::set_hook, rt::set_hook_stub)]
        #[kani::stub(std::sync::Arc::drop_slow, rt::arc_drop_slow_stub)]
        fn $name() $body
    };
}

/// two lockers (root: lock / critical section / unlock; other: lock or try_lock, unlock), the
/// other's whole operations at any atomic step of the root's (or while the root is parked)
fn two_lockers(depth: usize) {
    let m: &'static Mutex<u8> = Box::leak(Box::new(Mutex::new(0u8)));
    unsafe {
        M = m;
        MAXD = depth;
        O_EXISTS = true;
        O_TRY = kani::any();
        np::HOOK = Some(hook);
    }
    let g = match m.lock() {
        Ok(g) => g,
        Err(e) => e.into_inner(),
    };
    enter_cs(&g);
    hook(); // inside the critical section
    leave_cs(g);
    unsafe {
        np::HOOK = None;
        kani::cover!(ROOT_PARKED, "the root had to park and was handed the lock");
        kani::cover!(np::PREEMPTS >= 2 && !O_TRY, "lock and unlock of the other party landed inside the root's operations");
        while O_PC < 2 {
            run_o_step();
        }
        // quiescence: lock free, nobody queued
        assert!(*(*M).cnt.as_ptr() == 0, "C05: waiter count not back to zero at quiescence");
        assert!(QH == QT, "C05: a waiter is left in the queue at quiescence");
        match m.try_lock() {
            Err(TryLockError::WouldBlock) => assert!(false, "C05: mutex not free after everybody released"),
            Ok(g) => drop(g),
            Err(TryLockError::Poisoned(e)) => drop(e.into_inner()),
        }
    }
}
mutex_harness! { #[kani::unwind(3)] fn c05_mutex_two_lockers_d1() { two_lockers(1) } }
mutex_harness! { #[kani::unwind(3)] fn c05_mutex_two_lockers_d2() { two_lockers(2) } }

/// try_lock never blocks and never succeeds while the lock is held; sequential + one racing locker
fn try_lock_root(depth: usize) {
    let m: &'static Mutex<u8> = Box::leak(Box::new(Mutex::new(0u8)));
    unsafe {
        M = m;
        MAXD = depth;
        O_EXISTS = true;
        O_TRY = kani::any();
        np::HOOK = Some(hook);
    }
    let o_held_before = unsafe { O_PC == 1 };
    let r = m.try_lock();
    match r {
        Ok(g) => {
            enter_cs(&g);
            hook();
            leave_cs(g);
        }
        Err(TryLockError::Poisoned(_)) => assert!(false, "C05: Poisoned from a clean mutex"),
        Err(TryLockError::WouldBlock) => unsafe {
            let _ = o_held_before;
            assert!(O_PC >= 1, "C05: try_lock refused although nobody ever took the lock");
        },
    }
    unsafe {
        np::HOOK = None;
        while O_PC < 2 {
            run_o_step();
        }
        assert!(*(*M).cnt.as_ptr() == 0);
    }
}
mutex_harness! { #[kani::unwind(3)] fn c05_mutex_try_lock_d1() { try_lock_root(1) } }

/// C13 (mutex half): a guard dropped by a panic poisons and releases; by a cancel unwind releases
/// without poisoning; a guard created while already panicking never poisons
#[kani::proof]
#[kani::unwind(5)]
#[kani::stub(may_queue::mpsc::Queue::push, q_push)]
#[kani::stub(may_queue::mpsc::Queue::pop, q_pop)]
#[kani::stub(crate::sync::blocking::Blocker::park, park_model)]
#[kani::stub(crate::sync::blocking::Blocker::unpark, unpark_model)]
#[kani::stub(crate::coroutine_impl::is_coroutine, is_coroutine_false)]
#[kani::stub(std::thread::panicking, np::panicking_stub)]
#[kani::stub(stdpanic::catch_unwind, rt::catch_unwind_stub)]
#[kani::stub(stdpanic::take_hook, rt::take_hook_stub)]
#[kani::stub(stdpanic::set_hook, rt::set_hook_stub)]
#[kani::stub(std::sync::Arc::drop_slow, rt::arc_drop_slow_stub)]
fn c13_mutex_poison_follows_std() {
    let m: &'static Mutex<u8> = Box::leak(Box::new(Mutex::new(0u8)));
    let panicking_at_lock: bool = kani::any();
    let panicking_at_drop: bool = kani::any();
    kani::assume(!panicking_at_lock || panicking_at_drop); // a panic does not end inside a guard
    unsafe { np::PANICKING = panicking_at_lock };
    let g = m.lock().unwrap();
    unsafe { np::PANICKING = panicking_at_drop };
    drop(g);
    unsafe { np::PANICKING = false };
    let expect_poison = !panicking_at_lock && panicking_at_drop;
    assert!(m.is_poisoned() == expect_poison, "C13: mutex poison state does not follow std (poisoned iff the panic started while the guard was held)");
    // released in every case
    match m.try_lock() {
        Err(TryLockError::WouldBlock) => assert!(false, "C13: a guard dropped by a panic did not release the mutex"),
        Ok(g) => {
            assert!(!expect_poison);
            drop(g)
        }
        Err(TryLockError::Poisoned(e)) => {
            assert!(expect_poison);
            drop(e.into_inner())
        }
    }
    match m.lock() {
        Ok(g) => {
            assert!(!expect_poison);
            drop(g)
        }
        Err(e) => {
            assert!(expect_poison, "C13: lock() reports Poisoned on a clean mutex");
            drop(e.into_inner())
        }
    }
    kani::cover!(expect_poison, "poisoned by a panic inside the guard");
    kani::cover!(panicking_at_lock, "guard taken while already panicking: no poison");
}

// ---------------------------------------------------------------------------------------------
// cancelled waiter: "an unlock always hands the lock to a live waiter, also when that waiter is
// being cancelled" (C05 / C09).  The root W blocks in lock() while H holds the mutex; W's park
// gives up with Err(Canceled) at a solver-chosen moment (before, after or together with the
// hand-off); H's whole unlock lands at any atomic step of W's give-up hand-shake
// (is_unparked / set_release / is_unparked / take_release).  W then leaves through the cancel
// panic.  Afterwards nobody holds the mutex, so it must be free again.
// ---------------------------------------------------------------------------------------------
static mut H_GUARD: Option<MutexGuard<'static, u8>> = None;
static mut H_LEFT: bool = false;
static mut W_CANCELED: bool = false;
fn run_h_unlock() {
    unsafe {
        H_LEFT = false;
        let g = H_GUARD.take();
        drop(g);
    }
}
fn hook_c() {
    unsafe {
        if np::DEPTH < MAXD && H_LEFT && kani::any() {
            np::nested(run_h_unlock);
        }
    }
}
fn park_model_cancel(b: &Blocker, _timeout: Option<std::time::Duration>) -> Result<(), ParkError> {
    np::point();
    let tok = crate::sync::blocking::verif_kani::blocker_token(b);
    unsafe {
        // the cancel may arrive at any moment: before the hand-off, or after the waiter was
        // already unparked (Park reports Canceled in both cases)
        if kani::any() {
            W_CANCELED = true;
            return Err(ParkError::Canceled);
        }
        if *tok == 0 && H_LEFT {
            run_h_unlock();
        }
        if kani::any() {
            W_CANCELED = true;
            return Err(ParkError::Canceled);
        }
        assert!(*tok != 0, "C05: waiter not woken by the unlock");
        *tok = 0;
        Ok(())
    }
}
fn cancel_panic_final() -> ! {
    unsafe {
        assert!(W_CANCELED, "C09: cancel panic in a waiter that was never cancelled");
        np::HOOK = None;
        if H_LEFT {
            run_h_unlock();
        }
        // the cancelled waiter is gone, the holder has released: nobody holds the mutex
        assert!(*(*M).cnt.as_ptr() == 0, "C05/C09: mutex left locked after a cancelled waiter (lock handed to a dead waiter and not passed on)");
        match (*M).try_lock() {
            Err(TryLockError::WouldBlock) => assert!(false, "C05/C09: try_lock refused although nobody holds the mutex"),
            Ok(g) => std::mem::forget(g),
            Err(TryLockError::Poisoned(e)) => {
                assert!(false, "C09: mutex poisoned by a cancellation");
                std::mem::forget(e)
            }
        }
        kani::cover!(np::PREEMPTS > 0, "the holder's unlock landed inside the cancelled waiter's give-up hand-shake");
        kani::cover!(np::PREEMPTS == 0, "cancel after / before the hand-off without overlap");
    }
    kani::assume(false);
    unreachable!()
}
#[kani::proof]
#[kani::unwind(4)]
#[kani::stub(core::sync::atomic::Atomic::<usize>::compare_exchange, sa::usize_cas)]
#[kani::stub(core::sync::atomic::Atomic::<usize>::fetch_add, sa::usize_fetch_add)]
#[kani::stub(core::sync::atomic::Atomic::<usize>::fetch_sub, sa::usize_fetch_sub)]
#[kani::stub(core::sync::atomic::Atomic::<bool>::load, sa::bool_load)]
#[kani::stub(core::sync::atomic::Atomic::<bool>::store, sa::bool_store)]
#[kani::stub(core::sync::atomic::Atomic::<bool>::swap, sa::bool_swap)]
#[kani::stub(may_queue::mpsc::Queue::push, q_push)]
#[kani::stub(may_queue::mpsc::Queue::pop, q_pop)]
#[kani::stub(crate::sync::blocking::Blocker::park, park_model_cancel)]
#[kani::stub(crate::sync::blocking::Blocker::unpark, unpark_model)]
#[kani::stub(crate::cancel::trigger_cancel_panic, cancel_panic_final)]
#[kani::stub(crate::coroutine_impl::is_coroutine, is_coroutine_false)]
#[kani::stub(std::thread::panicking, np::panicking_stub)]
#[kani::stub(stdpanic::catch_unwind, rt::catch_unwind_stub)]
#[kani::stub(stdpanic::take_hook, rt::take_hook_stub)]
#[kani::stub(stdpanic::set_hook, rt::set_hook_stub)]
#[kani::stub(std::sync::Arc::drop_slow, rt::arc_drop_slow_stub)]
fn c05_mutex_cancelled_waiter_d1() {
    let m: &'static Mutex<u8> = Box::leak(Box::new(Mutex::new(0u8)));
    unsafe {
        M = m;
        MAXD = 1;
        H_GUARD = Some(m.lock().unwrap());
        H_LEFT = true;
        np::HOOK = Some(hook_c);
    }
    // W: blocks, is cancelled or handed the lock
    match m.lock() {
        Ok(g) => unsafe {
            // not cancelled (or the wake-up won): W holds the lock now
            assert!(!H_LEFT, "C05: second locker admitted while the first still holds the mutex");
            np::HOOK = None;
            drop(g);
            assert!(*(*M).cnt.as_ptr() == 0);
        },
        Err(_) => assert!(false, "C09: Poisoned from a mutex nobody panicked in"),
    }
}

// ---------------------------------------------------------------------------------------------
// Twin of the cancelled-waiter harness with the roles exchanged: the *holder's unlock* is the
// root (real Mutex::unlock / unpark_one / SyncBlocker::unpark), and the cancelled waiter's
// give-up hand-shake lands at any atomic step of it.  The waiter registered and parked *before*
// the unlock began, so its continuation cannot be a nested call of the real lock(); it is a
// MIRROR of the Canceled arm of Mutex::lock (the six lines after park returned), tied to the
// source text by the runner (INDEX "mirrors").  Each side's real code is under test in one of
// the two twins.
// ---------------------------------------------------------------------------------------------
static mut TW_W: Option<Arc<SyncBlocker>> = None;
static mut TW_GAVE_UP: bool = false;
/// MIRROR of src/sync/mutex.rs, Mutex::lock, `Err(ParkError::Canceled) => { .. }` for a waiter
/// whose cancel is not disabled (b_ignore == false)
fn mirror_cancelled_waiter_gives_up() {
    unsafe {
        let cur = TW_W.as_ref().unwrap();
        let m = &*M;
        // check the unpark status
        if cur.is_unparked() {
            m.unlock();
        } else {
            // register
            cur.set_release();
            // re-check unpark status
            if cur.is_unparked() && cur.take_release() {
                m.unlock();
            }
        }
        // ... trigger_cancel_panic(): the waiter is gone
        TW_GAVE_UP = true;
    }
}
fn tw_hook() {
    unsafe {
        if np::DEPTH == 0 && !TW_GAVE_UP && kani::any() {
            np::nested(mirror_cancelled_waiter_gives_up);
        }
    }
}
fn tw_park_unreachable(_b: &Blocker, _t: Option<std::time::Duration>) -> Result<(), ParkError> {
    assert!(false, "model: nobody parks in this harness");
    kani::assume(false);
    Ok(())
}
#[kani::proof]
#[kani::unwind(4)]
#[kani::stub(core::sync::atomic::Atomic::<usize>::compare_exchange, sa::usize_cas)]
#[kani::stub(core::sync::atomic::Atomic::<usize>::fetch_add, sa::usize_fetch_add)]
#[kani::stub(core::sync::atomic::Atomic::<usize>::fetch_sub, sa::usize_fetch_sub)]
#[kani::stub(core::sync::atomic::Atomic::<bool>::load, sa::bool_load)]
#[kani::stub(core::sync::atomic::Atomic::<bool>::store, sa::bool_store)]
#[kani::stub(core::sync::atomic::Atomic::<bool>::swap, sa::bool_swap)]
#[kani::stub(may_queue::mpsc::Queue::push, q_push)]
#[kani::stub(may_queue::mpsc::Queue::pop, q_pop)]
#[kani::stub(crate::sync::blocking::Blocker::park, tw_park_unreachable)]
#[kani::stub(crate::sync::blocking::Blocker::unpark, unpark_model)]
#[kani::stub(crate::coroutine_impl::is_coroutine, is_coroutine_false)]
#[kani::stub(std::thread::panicking, np::panicking_stub)]
#[kani::stub(stdpanic::catch_unwind, rt::catch_unwind_stub)]
#[kani::stub(stdpanic::take_hook, rt::take_hook_stub)]
#[kani::stub(stdpanic::set_hook, rt::set_hook_stub)]
#[kani::stub(std::sync::Arc::drop_slow, rt::arc_drop_slow_stub)]
fn c05_mutex_unlock_vs_cancelled_waiter_d1() {
    let m: &'static Mutex<u8> = Box::leak(Box::new(Mutex::new(0u8)));
    unsafe {
        M = m;
        // pre-state, built with the real calls in the order Mutex::lock performs them: H holds the
        // lock, W has registered (blocker queued, count incremented) and is parked
        let g = m.lock().unwrap();
        let w = SyncBlocker::current();
        m.to_wake.push(w.clone());
        let old = m.cnt.fetch_add(1, Ordering::SeqCst);
        assert!(old == 1);
        TW_W = Some(w);
        np::HOOK = Some(tw_hook);
        // root: the holder releases; W's cancel lands anywhere inside (or after)
        drop(g);
        np::HOOK = None;
        kani::cover!(TW_GAVE_UP && np::PREEMPTS > 0, "the waiter gave up inside the holder's unlock");
        if !TW_GAVE_UP {
            mirror_cancelled_waiter_gives_up();
        }
        // W is gone and H has released: nobody holds the mutex
        assert!(*m.cnt.as_ptr() == 0, "C05/C09: mutex left locked: the lock was handed to a cancelled waiter and not passed on");
        match m.try_lock() {
            Err(TryLockError::WouldBlock) => assert!(false, "C05/C09: try_lock refused although nobody holds the mutex"),
            Ok(g) => std::mem::forget(g),
            Err(TryLockError::Poisoned(e)) => std::mem::forget(e),
        }
    }
}

// ---- C13: a mutex guard dropped by a panic poisons *before* it releases --------------------------
static mut PC_LEFT: bool = false;
static mut PC_GOT_OK: bool = false;
static mut PC_GOT_ANY: bool = false;
fn run_pcontender() {
    unsafe {
        PC_LEFT = false;
        np::nested(|| match (*M).try_lock() {
            Ok(g) => {
                PC_GOT_OK = true;
                PC_GOT_ANY = true;
                std::mem::forget(g);
            }
            Err(TryLockError::Poisoned(e)) => {
                PC_GOT_ANY = true;
                std::mem::forget(e);
            }
            Err(TryLockError::WouldBlock) => {}
        });
    }
}
fn hook_pcontender() {
    unsafe {
        if np::DEPTH == 0 && PC_LEFT && kani::any() {
            run_pcontender();
        }
    }
}
#[kani::proof]
#[kani::unwind(4)]
#[kani::stub(core::sync::atomic::Atomic::<usize>::compare_exchange, sa::usize_cas)]
#[kani::stub(core::sync::atomic::Atomic::<usize>::fetch_sub, sa::usize_fetch_sub)]
#[kani::stub(core::sync::atomic::Atomic::<usize>::load, sa::usize_load)]
#[kani::stub(core::sync::atomic::Atomic::<usize>::store, sa::usize_store)]
#[kani::stub(may_queue::mpsc::Queue::push, q_push)]
#[kani::stub(may_queue::mpsc::Queue::pop, q_pop)]
#[kani::stub(crate::sync::blocking::Blocker::park, tw_park_unreachable)]
#[kani::stub(crate::sync::blocking::Blocker::unpark, unpark_model)]
#[kani::stub(crate::coroutine_impl::is_coroutine, is_coroutine_false)]
#[kani::stub(std::thread::panicking, np::panicking_stub)]
#[kani::stub(stdpanic::catch_unwind, rt::catch_unwind_stub)]
#[kani::stub(stdpanic::take_hook, rt::take_hook_stub)]
#[kani::stub(stdpanic::set_hook, rt::set_hook_stub)]
#[kani::stub(std::sync::Arc::drop_slow, rt::arc_drop_slow_stub)]
fn c13_mutex_panicking_holder_drop_vs_contender() {
    let m: &'static Mutex<u8> = Box::leak(Box::new(Mutex::new(0u8)));
    let g = m.lock().unwrap();
    unsafe {
        M = m;
        PC_LEFT = true;
        np::PANICKING = true;
        np::HOOK = Some(hook_pcontender);
    }
    drop(g);
    unsafe {
        np::HOOK = None;
        np::PANICKING = false;
        let inside = !PC_LEFT;
        if PC_LEFT {
            run_pcontender();
        }
        assert!(!PC_GOT_OK, "C13: try_lock returned Ok although the holder panicked inside the guard (poison flag set too late)");
        assert!(m.is_poisoned());
        kani::cover!(inside, "the contender's try_lock ran inside the panicking holder's guard drop");
    }
}

/// the mutex count (0 = free, 1 = held, n = held with n-1 waiters), for harnesses in other modules
pub fn mutex_count<T: ?Sized>(m: &Mutex<T>) -> usize {
    unsafe { *m.cnt.as_ptr() }
}
