// C14 (join half) / C01 (join protocol): harnesses over the real src/join.rs with the real
// Blocker (Park flavour), park.rs, yield_with and cancel.rs underneath.
// Child module of src/join.rs (cfg(kani) only).
//
// Every scope destructor (coroutine::scope, join!, cqueue::scope) ends in JoinHandle::join ->
// Join::wait for each child; "the scope is never left while a child is running" therefore rests
// on "Join::wait does not return while Join.state is still true".  The Box<dyn FnOnce> chains of
// Scope::defer / spawn_unsafe themselves exceed the memory caps (13-21 GB) and are not encoded.
use super::*;
use crate::cancel::Cancel;
use crate::coroutine_impl::{CoroutineImpl, EventSubscriber};
use crate::scheduler::Scheduler;
use crate::verif_shim::{gen, np, rt};
use std::panic as stdpanic;
use std::time::Duration;

static mut CANCEL: *const Cancel = std::ptr::null();
static mut JOIN: *const Join = std::ptr::null();
static mut OWNER_RESUMED: usize = 0;
static mut OWNER_SUSPENDED: usize = 0;
static mut CHILD_DONE: bool = false;
type TD = Arc<AtomicOption<CoroutineImpl>>;

fn schedule_stub(_s: &Scheduler, co: CoroutineImpl) {
    std::mem::forget(co);
    unsafe { OWNER_RESUMED += 1 };
}
fn run_coroutine_stub(co: CoroutineImpl) {
    std::mem::forget(co);
    unsafe { OWNER_RESUMED += 1 };
}
fn add_timer_none(_s: &Scheduler, _d: Duration, _co: TD) -> crate::timeout_list::TimeoutHandle<TD> {
    kani::assume(false);
    loop {}
}
fn del_timer_stub(_s: &Scheduler, h: crate::timeout_list::TimeoutHandle<TD>) {
    std::mem::forget(h);
}
fn is_coroutine_true() -> bool {
    true
}
fn current_cancel_data_stub() -> &'static Cancel {
    unsafe { &*CANCEL }
}
fn co_cancel_data_stub(_co: &CoroutineImpl) -> &'static Cancel {
    unsafe { &*CANCEL }
}
fn yield_now_prune() {
    kani::assume(false);
}
/// while unwinding, check_cancel must not raise a second panic
fn cancel_panic_stub() -> ! {
    assert!(!unsafe { np::PANICKING }, "C09: second cancel panic raised while already unwinding");
    unsafe { DIVERGED = true };
    kani::assume(false);
    loop {}
}
static mut DIVERGED: bool = false;
/// the owner really suspends; the child then finishes (its closure has returned: real
/// Join::trigger), which must resume the owner exactly once
fn co_yield_with_stub<T: std::any::Any>(v: T) {
    let b: Box<dyn std::any::Any> = Box::new(v);
    let es = *b.downcast::<EventSubscriber>().unwrap();
    let co: CoroutineImpl = gen::Generator::fresh();
    unsafe { OWNER_SUSPENDED += 1 };
    es.subscribe(co);
    unsafe {
        CHILD_DONE = true;
        (*JOIN).trigger();
        assert!(OWNER_RESUMED == 1, "C01/C14: owner parked for ever in join although the child has finished (or resumed twice)");
    }
}

macro_rules! join_harness {
    ($(#[$m:meta])* fn $name:ident() $body:block) => {
        #[kani::proof]
        $(#[$m])*
        #[kani::stub(crate::scheduler::get_scheduler, rt::get_scheduler_stub)]
        #[kani::stub(crate::scheduler::Scheduler::schedule, schedule_stub)]
        #[kani::stub(crate::scheduler::Scheduler::add_timer, add_timer_none)]
        #[kani::stub(crate::scheduler::Scheduler::del_timer, del_timer_stub)]
        #[kani::stub(crate::coroutine_impl::run_coroutine, run_coroutine_stub)]
        #[kani::stub(crate::coroutine_impl::is_coroutine, is_coroutine_true)]
        #[kani::stub(crate::coroutine_impl::current_cancel_data, current_cancel_data_stub)]
        #[kani::stub(crate::coroutine_impl::co_cancel_data, co_cancel_data_stub)]
        #[kani::stub(crate::yield_now::get_co_para, rt::get_co_para_stub)]
        #[kani::stub(crate::yield_now::yield_now, yield_now_prune)]
        #[kani::stub(crate::cancel::trigger_cancel_panic, cancel_panic_stub)]
        #[kani::stub(generator::co_set_para, rt::co_set_para_stub)]
        #[kani::stub(generator::co_yield_with, co_yield_with_stub)]
        #[kani::stub(std::thread::panicking, np::panicking_stub)]
        #[kani::stub(crate::sync::blocking::ThreadPark::park_timeout, crate::sync::blocking::verif_kani::tp_park_unreachable)]
        #[kani::stub(crate::sync::blocking::ThreadPark::unpark, crate::sync::blocking::verif_kani::tp_unpark_unreachable)]
        #[kani::stub(<crate::io::sys::cancel::CancelIoImpl as crate::cancel::CancelIo>::cancel, crate::io::sys::cancel::verif_kani::io_cancel_none)]
        #[kani::stub(<crate::io::sys::cancel::CancelIoImpl as crate::cancel::CancelIo>::clear, crate::io::sys::cancel::verif_kani::io_clear_none)]
        #[kani::stub(<core::io::CustomOwner as core::ops::Drop>::drop, rt::custom_owner_drop_stub)]
        #[kani::stub(std::io::ErrorKind::from_prim, rt::from_prim_unreachable)]
        #[kani::stub(stdpanic::catch_unwind, rt::catch_unwind_stub)]
        #[kani::stub(stdpanic::take_hook, rt::take_hook_stub)]
        #[kani::stub(stdpanic::set_hook, rt::set_hook_stub)]
        #[kani::stub(std::sync::Arc::drop_slow, rt::arc_drop_slow_stub)]
        fn $name() $body
    };
}

macro_rules! join_harness_np {
    ($(#[$m:meta])* fn $name:ident() $body:block) => {
        #[kani::proof]
        $(#[$m])*
        #[kani::stub(crate::scheduler::get_scheduler, rt::get_scheduler_stub)]
        #[kani::stub(crate::scheduler::Scheduler::schedule, schedule_stub)]
        #[kani::stub(crate::scheduler::Scheduler::add_timer, add_timer_none)]
        #[kani::stub(crate::scheduler::Scheduler::del_timer, del_timer_stub)]
        #[kani::stub(crate::coroutine_impl::run_coroutine, run_coroutine_stub)]
        #[kani::stub(crate::coroutine_impl::is_coroutine, is_coroutine_true)]
        #[kani::stub(crate::coroutine_impl::current_cancel_data, current_cancel_data_stub)]
        #[kani::stub(crate::coroutine_impl::co_cancel_data, co_cancel_data_stub)]
        #[kani::stub(crate::yield_now::get_co_para, rt::get_co_para_stub)]
        #[kani::stub(crate::yield_now::yield_now, yield_now_prune)]
        #[kani::stub(crate::cancel::trigger_cancel_panic, cancel_panic_stub)]
        #[kani::stub(generator::co_set_para, rt::co_set_para_stub)]
        #[kani::stub(generator::co_yield_with, co_yield_with_stub2)]
        #[kani::stub(std::thread::panicking, np::panicking_stub)]
        #[kani::stub(crate::sync::blocking::ThreadPark::park_timeout, crate::sync::blocking::verif_kani::tp_park_unreachable)]
        #[kani::stub(crate::sync::blocking::ThreadPark::unpark, crate::sync::blocking::verif_kani::tp_unpark_unreachable)]
        #[kani::stub(<crate::io::sys::cancel::CancelIoImpl as crate::cancel::CancelIo>::cancel, crate::io::sys::cancel::verif_kani::io_cancel_none)]
        #[kani::stub(<crate::io::sys::cancel::CancelIoImpl as crate::cancel::CancelIo>::clear, crate::io::sys::cancel::verif_kani::io_clear_none)]
        #[kani::stub(<core::io::CustomOwner as core::ops::Drop>::drop, rt::custom_owner_drop_stub)]
        #[kani::stub(std::io::ErrorKind::from_prim, rt::from_prim_unreachable)]
        #[kani::stub(stdpanic::catch_unwind, rt::catch_unwind_stub)]
        #[kani::stub(stdpanic::take_hook, rt::take_hook_stub)]
        #[kani::stub(stdpanic::set_hook, rt::set_hook_stub)]
        #[kani::stub(std::sync::Arc::drop_slow, rt::arc_drop_slow_stub)]
        fn $name() $body
    };
}

/// the owner (a coroutine) waits for a child that has not finished yet - the call every scope
/// destructor makes.  `owner_cancelled`: the owner was cancelled and is unwinding (the scope is
/// being left by the cancel panic).
fn owner_waits(owner_cancelled: bool) {
    let cancel: &'static Cancel = Box::leak(Box::new(Cancel::new()));
    rt::install_scheduler();
    let join: &'static Join = Box::leak(Box::new(Join::new(Arc::new(AtomicOption::none()))));
    unsafe {
        CANCEL = cancel;
        JOIN = join;
        gen::SOLE = 0;
        rt::CUR_CO = 0;
    }
    if owner_cancelled {
        unsafe {
            cancel.cancel();
            np::PANICKING = true;
        }
    }
    // the child may also have finished before the owner gets to wait (no suspension then)
    let finished_before: bool = !owner_cancelled && kani::any();
    if finished_before {
        unsafe { CHILD_DONE = true };
        join.trigger();
    }
    join.wait();
    assert!(
        !join.state.load(Ordering::Acquire),
        "C14: Join::wait returned while the coroutine has not finished (the scope would be left with a child still running)"
    );
    unsafe {
        assert!(CHILD_DONE || owner_cancelled);
        kani::cover!(OWNER_SUSPENDED == 1 && CHILD_DONE, "owner really suspended and was resumed by the child's completion");
        kani::cover!(finished_before && OWNER_SUSPENDED == 0, "child finished before wait(): no suspension");
    }
}
join_harness! { #[kani::unwind(3)] fn c14_join_wait_uncancelled_owner() { owner_waits(false) } }
// witness harness of known finding F5 (expected to be refuted)
join_harness! { #[kani::unwind(3)] fn c14_f5_witness_cancelled_unwinding_owner() { owner_waits(true) } }

// ---- C01 H1: the join protocol against the child's completion at any atomic step ------------------
use crate::verif_shim::sa;
static mut TRIGGER_LEFT: bool = false;
fn run_trigger() {
    unsafe {
        TRIGGER_LEFT = false;
        CHILD_DONE = true;
        np::nested(|| (*JOIN).trigger());
    }
}
fn hook_trigger() {
    unsafe {
        if np::DEPTH == 0 && TRIGGER_LEFT && kani::any() {
            run_trigger();
        }
    }
}
/// suspension with the child's completion possibly still outstanding
fn co_yield_with_stub2<T: std::any::Any>(v: T) {
    let b: Box<dyn std::any::Any> = Box::new(v);
    let es = *b.downcast::<EventSubscriber>().unwrap();
    let co: CoroutineImpl = gen::Generator::fresh();
    unsafe {
        OWNER_SUSPENDED += 1;
        OWNER_RESUMED = 0;
    }
    es.subscribe(co);
    hook_trigger();
    unsafe {
        if OWNER_RESUMED == 0 && TRIGGER_LEFT {
            run_trigger();
        }
        assert!(OWNER_RESUMED <= 1, "C01: joiner resumed twice for one suspension");
        assert!(OWNER_RESUMED == 1, "C01: joiner parked for ever although the coroutine has finished (lost wake-up between register and re-check)");
    }
}
join_harness_np! {
    #[kani::unwind(3)]
    #[kani::stub(core::sync::atomic::Atomic::<bool>::load, sa::bool_load)]
    #[kani::stub(core::sync::atomic::Atomic::<bool>::store, sa::bool_store)]
    #[kani::stub(core::sync::atomic::Atomic::<bool>::swap, sa::bool_swap)]
    #[kani::stub(crossbeam::atomic::AtomicCell::swap, rt::cell_swap)]
    #[kani::stub(crossbeam::atomic::AtomicCell::store, rt::cell_store)]
    #[kani::stub(crossbeam::atomic::AtomicCell::take, rt::cell_take)]
    #[kani::stub(crate::cancel::CancelImpl::is_canceled, crate::cancel::verif_kani::is_canceled_never)]
    fn c01_join_wait_vs_trigger_d1() {
        let cancel: &'static Cancel = Box::leak(Box::new(Cancel::new()));
        rt::install_scheduler();
        let join: &'static Join = Box::leak(Box::new(Join::new(Arc::new(AtomicOption::none()))));
        unsafe {
            CANCEL = cancel;
            JOIN = join;
            gen::SOLE = 0;
            rt::CUR_CO = 0;
            TRIGGER_LEFT = true;
            np::HOOK = Some(hook_trigger);
        }
        // is_done() never reports completion early
        assert!(join.state.load(Ordering::Acquire) || unsafe { CHILD_DONE });
        join.wait();
        unsafe {
            np::HOOK = None;
            assert!(CHILD_DONE && !TRIGGER_LEFT, "C01: wait() returned before the coroutine finished");
            assert!(!*join.state.as_ptr(), "C01: wait() returned while Join.state still says running");
            kani::cover!(OWNER_SUSPENDED == 1 && np::PREEMPTS > 0, "the completion landed inside wait()/subscribe and the joiner suspended");
            kani::cover!(OWNER_SUSPENDED == 0, "completion before / inside wait(): no suspension");
        }
    }
}

// ---- C01 H1, thread joiner: completion vs join at any atomic step, both root assignments --------
// (the coroutine-joiner variant above is inconclusive; with a plain-thread joiner the Blocker is
// the ThreadPark token model and no Park / cancel code is involved)
static mut TJ_TOKEN: *mut usize = std::ptr::null_mut();
static mut TJ_PARKED: bool = false;
static mut TJ_NESTED: bool = false; // the joiner's wait() runs nested inside trigger()
fn tj_is_coroutine_false() -> bool {
    false
}
fn tj_unpark(b: &Blocker) {
    np::point();
    unsafe { *crate::sync::mpsc::verif_kani::blocker_token_pub(b) = 1 };
}
fn tj_park(b: &Blocker, _t: Option<Duration>) -> std::result::Result<(), crate::park::ParkError> {
    np::point();
    let tok = crate::sync::mpsc::verif_kani::blocker_token_pub(b);
    unsafe {
        TJ_TOKEN = tok;
        if *tok != 0 {
            *tok = 0;
            return Ok(());
        }
        TJ_PARKED = true;
        if TJ_NESTED {
            // Join::wait does nothing after park returns, so a joiner that has to stay parked can
            // be represented by returning here; whether it is ever woken is judged by the root
            // once trigger() has completed (the token must have been set by then)
            return Ok(());
        }
        if TRIGGER_LEFT {
            run_trigger();
        }
        assert!(*tok != 0, "C01: joiner parked for ever although the coroutine has finished (lost wake-up between register and re-check)");
        *tok = 0;
        Ok(())
    }
}
fn hook_join_nested() {
    unsafe {
        if np::DEPTH == 0 && JOINER_LEFT && kani::any() {
            JOINER_LEFT = false;
            TJ_NESTED = true;
            np::nested(|| (*JOIN).wait());
            TJ_NESTED = false;
        }
    }
}
static mut JOINER_LEFT: bool = false;

macro_rules! tj_harness {
    ($(#[$m:meta])* fn $name:ident() $body:block) => {
        #[kani::proof]
        $(#[$m])*
        #[kani::stub(core::sync::atomic::Atomic::<bool>::load, sa::bool_load)]
        #[kani::stub(core::sync::atomic::Atomic::<bool>::store, sa::bool_store)]
        #[kani::stub(crossbeam::atomic::AtomicCell::swap, rt::cell_swap)]
        #[kani::stub(crossbeam::atomic::AtomicCell::store, rt::cell_store)]
        #[kani::stub(crossbeam::atomic::AtomicCell::take, rt::cell_take)]
        #[kani::stub(crate::coroutine_impl::is_coroutine, tj_is_coroutine_false)]
        #[kani::stub(crate::sync::blocking::Blocker::park, tj_park)]
        #[kani::stub(crate::sync::blocking::Blocker::unpark, tj_unpark)]
        #[kani::stub(stdpanic::catch_unwind, rt::catch_unwind_stub)]
        #[kani::stub(stdpanic::take_hook, rt::take_hook_stub)]
        #[kani::stub(stdpanic::set_hook, rt::set_hook_stub)]
        #[kani::stub(std::thread::panicking, np::panicking_stub)]
        #[kani::stub(std::sync::Arc::drop_slow, rt::arc_drop_slow_stub)]
        fn $name() $body
    };
}
/// root = the joiner's wait(); the coroutine's completion (real Join::trigger) at any atomic step
tj_harness! {
    #[kani::unwind(3)]
    fn c01_thread_join_wait_vs_trigger_d1() {
        let join: &'static Join = Box::leak(Box::new(Join::new(Arc::new(AtomicOption::none()))));
        unsafe {
            JOIN = join;
            TRIGGER_LEFT = true;
            np::HOOK = Some(hook_trigger);
        }
        join.wait();
        unsafe {
            np::HOOK = None;
            assert!(CHILD_DONE && !TRIGGER_LEFT, "C01: wait() returned before the coroutine finished");
            assert!(!*join.state.as_ptr());
            kani::cover!(TJ_PARKED, "joiner parked and was woken by the completion");
            kani::cover!(!TJ_PARKED && np::PREEMPTS > 0, "completion landed inside wait(): no parking needed");
        }
    }
}
/// root = the coroutine's completion (real Join::trigger); the joiner's whole wait() - register,
/// re-check, park - lands at any atomic step of it (or after it)
tj_harness! {
    #[kani::unwind(3)]
    fn c01_trigger_vs_registering_thread_joiner_d1() {
        let join: &'static Join = Box::leak(Box::new(Join::new(Arc::new(AtomicOption::none()))));
        unsafe {
            JOIN = join;
            JOINER_LEFT = true;
            np::HOOK = Some(hook_join_nested);
            CHILD_DONE = true;
        }
        join.trigger();
        unsafe {
            np::HOOK = None;
            let inside = !JOINER_LEFT;
            if TJ_PARKED {
                // the joiner registered, saw "running" and parked inside trigger(): the completed
                // trigger must have woken it
                assert!(*TJ_TOKEN != 0, "C01: the coroutine has finished and the parked joiner was never woken (lost wake-up in Join::trigger)");
            }
            kani::cover!(inside && TJ_PARKED, "the joiner parked inside trigger() and was woken by it");
            kani::cover!(inside && !TJ_PARKED, "the joiner saw the completion inside trigger() and did not park");
            if JOINER_LEFT {
                JOINER_LEFT = false;
                join.wait();
                assert!(!TJ_PARKED, "C01: a joiner arriving after completion had to park");
            }
        }
    }
}
