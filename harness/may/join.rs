// harnesses for src/join (child module, cfg(kani) only)
