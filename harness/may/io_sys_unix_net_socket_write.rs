// harnesses for src/io_sys_unix_net_socket_write (child module, cfg(kani) only)
