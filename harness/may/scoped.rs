// harnesses for src/scoped (child module, cfg(kani) only)
