// harnesses for src/io_sys_unix_cancel (child module, cfg(kani) only)
