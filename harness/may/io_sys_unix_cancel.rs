// child module of src/io/sys/unix/cancel.rs (cfg(kani) only)
use super::*;
use crate::verif_shim::np;

/// Stub for `<CancelIoImpl as CancelIo>::cancel` in harnesses where the coroutine is never
/// blocked in socket I/O: the io slot is empty (asserted), so the call returns None.
pub unsafe fn io_cancel_none(c: &CancelIoImpl) -> Option<std::io::Result<()>> {
    let v = np::quiet(|| c.0.take());
    assert!(v.is_none(), "model: io cancel slot set in a harness without socket I/O");
    std::mem::forget(v);
    None
}
/// Stub for `<CancelIoImpl as CancelIo>::clear` under the same assumption
pub fn io_clear_none(c: &CancelIoImpl) {
    let v = np::quiet(|| c.0.take());
    assert!(v.is_none(), "model: io cancel slot set in a harness without socket I/O");
    std::mem::forget(v);
}
