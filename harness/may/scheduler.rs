// harnesses for src/scheduler (child module, cfg(kani) only)
