// child module of src/scheduler.rs (cfg(kani) only)
use super::*;

/// MIRROR of the closure `timer_event_handler` in `init_scheduler` (src/scheduler.rs): the closure
/// lives inside a function that spawns OS threads and cannot be called.  The runner compares the
/// source text of the original with the snapshot this mirror was written from (INDEX.json
/// "mirrors"); if it differs, harnesses that use the mirror are inconclusive, never a pass.
pub fn timer_event_handler(c: Arc<AtomicOption<CoroutineImpl>>) {
    // just re-push the co to the visit list
    if let Some(mut co) = c.take() {
        // set the timeout result for the coroutine
        set_co_para(&mut co, io::Error::new(io::ErrorKind::TimedOut, "timeout"));
        // s.schedule_global(c);
        run_coroutine(co);
    }
}
