// harnesses for src/sync_barrier (child module, cfg(kani) only)
