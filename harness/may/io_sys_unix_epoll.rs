// harnesses for src/io_sys_unix_epoll (child module, cfg(kani) only)
