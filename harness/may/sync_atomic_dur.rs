// C08 / C18 H-arith: AtomicDuration for every Duration (child module of src/sync/atomic_dur.rs)
use super::*;
use std::time::Duration;

fn any_duration(max_secs: u64) -> Duration {
    let secs: u64 = kani::any();
    let nanos: u32 = kani::any();
    kani::assume(nanos < 1_000_000_000);
    kani::assume(secs <= max_secs);
    Duration::new(secs, nanos)
}

fn covers(d: Duration) {
    kani::cover!(d < Duration::from_millis(1) && d > Duration::ZERO, "sub-millisecond duration reached");
    kani::cover!(d.subsec_nanos() % 1_000_000 != 0 && d > Duration::from_secs(1), "non-integral ms reached");
    kani::cover!(d == Duration::ZERO, "zero duration reached");
}

/// store(Some(d)); take() never loses the time-out and never shortens it; granularity <= 1 ms
fn store_take(max_secs: u64) {
    let d = any_duration(max_secs);
    covers(d);
    let a = AtomicDuration::new(None);
    a.store(Some(d));
    let r = a.take();
    assert!(r.is_some(), "C08: a timed wait with Some(d) became 'wait for ever'");
    let r = r.unwrap();
    assert!(r >= d, "C08: stored time-out is shorter than requested (fires early)");
    assert!(r <= d + Duration::from_millis(1), "C08: stored time-out is more than 1 ms late");
    // take() consumed it
    assert!(a.take().is_none());
}

/// new(Some(d)) then get() (socket time-outs, C18) obeys the same contract; None stays None
fn new_get(max_secs: u64) {
    let d = any_duration(max_secs);
    covers(d);
    let a = AtomicDuration::new(Some(d));
    let r = a.get();
    assert!(r.is_some(), "C18: a socket time-out Some(d) became 'no time-out'");
    let r = r.unwrap();
    assert!(r >= d, "C18: socket time-out shorter than requested");
    assert!(r <= d + Duration::from_millis(1), "C18: socket time-out more than 1 ms late");
    let n = AtomicDuration::new(None);
    assert!(n.get().is_none() && n.take().is_none());
    n.store(None);
    assert!(n.take().is_none());
}

#[kani::proof]
fn c08_atomic_dur_store_take_q() { store_take(1 << 12) }
#[kani::proof]
fn c08_atomic_dur_new_get_q() { new_get(1 << 12) }
#[kani::proof]
fn c08_atomic_dur_store_take_t() { store_take(1 << 32) }
#[kani::proof]
fn c08_atomic_dur_new_get_t() { new_get(1 << 32) }

fn check_one(d: Duration) {
    let a = AtomicDuration::new(None);
    a.store(Some(d));
    let r = a.take();
    assert!(r.is_some(), "C08: a timed wait with Some(d) became 'wait for ever'");
    let r = r.unwrap();
    assert!(r >= d, "C08: stored time-out is shorter than requested (fires early)");
    assert!(r <= d + Duration::from_millis(1), "C08: stored time-out is more than 1 ms late");
    let b = AtomicDuration::new(Some(d));
    let g = b.get();
    assert!(g.is_some() && g.unwrap() >= d && g.unwrap() <= d + Duration::from_millis(1), "C18: socket time-out conversion wrong");
}
/// the boundary inputs as constants (zero, 1 ns, just below / at / above one and two
/// milliseconds, one second +- 1 ns): decided in a second whatever arithmetic the conversion
/// uses (a 128-bit division makes the symbolic harnesses above time out, i.e. inconclusive)
#[kani::proof]
fn c08_atomic_dur_boundaries() {
    check_one(Duration::ZERO);
    check_one(Duration::from_nanos(1));
    check_one(Duration::from_nanos(999_999));
    check_one(Duration::from_nanos(1_000_000));
    check_one(Duration::from_nanos(1_000_001));
    check_one(Duration::from_nanos(1_999_999));
    check_one(Duration::from_nanos(2_000_000));
    check_one(Duration::from_nanos(999_999_999));
    check_one(Duration::new(1, 0));
    check_one(Duration::new(1, 1));
    check_one(Duration::new(3600, 500_000));
    kani::cover!(true, "boundary list reached its end");
}
/// every duration below 3 ms (secs == 0): the sub-millisecond region the defect F1 lived in
#[kani::proof]
fn c08_atomic_dur_below_3ms() {
    let nanos: u32 = kani::any();
    kani::assume(nanos < 3_000_000);
    let d = Duration::new(0, nanos);
    kani::cover!(nanos == 0, "zero");
    kani::cover!(nanos > 0 && nanos < 1_000_000, "sub-millisecond");
    check_one(d);
}
