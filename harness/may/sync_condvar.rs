// harnesses for src/sync_condvar (child module, cfg(kani) only)
