// C11 (Condvar half): harnesses over the real src/sync/condvar.rs with the real Mutex underneath.
// Child module of src/sync/condvar.rs (cfg(kani) only).
//
// Real code: Condvar::{new, wait_impl, wait, wait_timeout, notify_one, notify_all, verify},
// Mutex::{lock, try_lock, unlock}, MutexGuard, SyncBlocker.  Models: the Condvar's waiter queue
// (crossbeam SegQueue) = FIFO; Blocker::{park, unpark} = one wake token, a timed park may give
// up at any moment; the Mutex is never contended in these harnesses (its waiter queue is asserted
// unused), so "wait re-acquires the mutex" is decided through the mutex count.
use super::*;
use crate::sync::blocking::Blocker;
use crate::verif_shim::{np, rt, sa};
use std::panic as stdpanic;

static mut CV: *const Condvar = std::ptr::null();
static mut NOTIFY_LEFT: bool = false;
static mut NOTIFY_ALL: bool = false;
static mut NOTIFIED_AFTER_ENQUEUE: bool = false;
static mut W_ENQUEUED: bool = false;
static mut W2_LEFT: bool = false; // a second waiter that registers behind the root (enqueue only; it stays parked)
static mut W2: Option<Arc<SyncBlocker>> = None;
static mut TIMED_OUT: bool = false;
static mut ROOT_PARKED: bool = false;
static mut CANCEL_MODE: bool = false; // the root waiter is cancelled: its park gives up with Canceled
static mut QTAB: [u64; 4] = [0; 4];
static mut QH: usize = 0;
static mut QT: usize = 0;

fn is_coroutine_false() -> bool {
    false
}
fn q_push<T>(_q: &SegQueue<T>, v: T) {
    np::point();
    assert!(std::mem::size_of::<T>() == 8);
    unsafe {
        assert!(QT < 4);
        QTAB[QT] = std::mem::transmute_copy::<T, u64>(&v);
        QT += 1;
        if np::DEPTH == 0 {
            W_ENQUEUED = true;
        }
    }
    std::mem::forget(v);
}
fn q_pop<T>(_q: &SegQueue<T>) -> Option<T> {
    np::point();
    unsafe {
        if QH == QT {
            None
        } else {
            let r = std::mem::transmute_copy::<u64, T>(&QTAB[QH]);
            QH += 1;
            Some(r)
        }
    }
}
fn mq_push_unreachable<T>(_q: &may_queue::mpsc::Queue<T>, v: T) {
    assert!(false, "model: mutex waiter queue used although the mutex is never contended here");
    std::mem::forget(v);
    kani::assume(false);
}
fn mq_pop_unreachable<T>(_q: &may_queue::mpsc::Queue<T>) -> Option<T> {
    assert!(false, "C11: mutex unlock found a waiter count > 1 although nobody waits for the mutex");
    kani::assume(false);
    None
}
fn run_notify() {
    unsafe {
        NOTIFY_LEFT = false;
        if W_ENQUEUED {
            NOTIFIED_AFTER_ENQUEUE = true;
        }
        W2_QUEUED_AT_NOTIFY = W2.is_some();
        if NOTIFY_ALL {
            (*CV).notify_all();
        } else {
            (*CV).notify_one();
        }
    }
}
/// the second waiter registers behind the root (what its wait_impl does first) and stays parked
fn run_w2_enqueue() {
    unsafe {
        W2_LEFT = false;
        let b = SyncBlocker::current();
        (*CV).to_wake.push(b.clone());
        W2 = Some(b);
    }
}
fn hook() {
    unsafe {
        if np::DEPTH == 0 {
            if W2_LEFT && W_ENQUEUED && kani::any() {
                np::nested(run_w2_enqueue);
            }
            if NOTIFY_LEFT && kani::any() {
                np::nested(run_notify);
            }
        }
    }
}
fn unpark_model(b: &Blocker) {
    np::point();
    unsafe { *crate::sync::blocking::verif_kani::blocker_token(b) = 1 };
}
fn park_model(b: &Blocker, timeout: Option<Duration>) -> Result<(), ParkError> {
    np::point();
    let tok = crate::sync::blocking::verif_kani::blocker_token(b);
    unsafe {
        if *tok != 0 {
            *tok = 0;
            return Ok(());
        }
        if CANCEL_MODE && kani::any() {
            TIMED_OUT = true;
            return Err(ParkError::Canceled);
        }
        if timeout.is_some() && kani::any() {
            TIMED_OUT = true;
            return Err(ParkError::Timeout);
        }
        ROOT_PARKED = true;
        if W2_LEFT && kani::any() {
            run_w2_enqueue();
        }
        if NOTIFY_LEFT {
            run_notify();
        }
        if CANCEL_MODE {
            // cancelled while parked, or together with the wake-up (Park reports Canceled in both cases)
            if *tok == 0 || kani::any() {
                *tok = 0;
                TIMED_OUT = true;
                return Err(ParkError::Canceled);
            }
        }
        if *tok != 0 {
            *tok = 0;
            return Ok(());
        }
        if timeout.is_some() {
            TIMED_OUT = true;
            return Err(ParkError::Timeout);
        }
        assert!(!NOTIFIED_AFTER_ENQUEUE, "C11: a notification issued while the waiter was enqueued did not wake it (lost notification)");
        kani::assume(false);
        Ok(())
    }
}

macro_rules! cv_harness {
    ($(#[$m:meta])* fn $name:ident() $body:block) => {
        #[kani::proof]
        $(#[$m])*
        #[kani::stub(core::sync::atomic::Atomic::<bool>::load, sa::bool_load)]
        #[kani::stub(core::sync::atomic::Atomic::<bool>::store, sa::bool_store)]
        #[kani::stub(core::sync::atomic::Atomic::<bool>::swap, sa::bool_swap)]
        #[kani::stub(crossbeam::queue::SegQueue::push, q_push)]
        #[kani::stub(crossbeam::queue::SegQueue::pop, q_pop)]
        #[kani::stub(may_queue::mpsc::Queue::push, mq_push_unreachable)]
        #[kani::stub(may_queue::mpsc::Queue::pop, mq_pop_unreachable)]
        #[kani::stub(crate::sync::blocking::Blocker::park, park_model)]
        #[kani::stub(crate::sync::blocking::Blocker::unpark, unpark_model)]
        #[kani::stub(crate::coroutine_impl::is_coroutine, is_coroutine_false)]
        #[kani::stub(std::thread::panicking, np::panicking_stub)]
        #[kani::stub(stdpanic::catch_unwind, rt::catch_unwind_stub)]
        #[kani::stub(stdpanic::take_hook, rt::take_hook_stub)]
        #[kani::stub(stdpanic::set_hook, rt::set_hook_stub)]
        #[kani::stub(std::sync::Arc::drop_slow, rt::arc_drop_slow_stub)]
        fn $name() $body
    };
}

/// root waiter: wait() or wait_timeout() under the mutex; a notify_one / notify_all and the
/// registration of a second waiter behind it land at any atomic step (queue operations,
/// give-up hand-shake flags) or while it is parked
fn waiter_vs_notify(notify_all: bool) {
    waiter_vs_notify_cfg(notify_all, kani::any(), kani::any())
}
fn waiter_vs_notify_cfg(notify_all: bool, timed: bool, with_w2: bool) {
    let cv: &'static Condvar = Box::leak(Box::new(Condvar::new()));
    let m: &'static Mutex<u8> = Box::leak(Box::new(Mutex::new(0u8)));
    unsafe {
        CV = cv;
        NOTIFY_LEFT = true;
        NOTIFY_ALL = notify_all;
        W2_LEFT = with_w2;
    }
    let g = m.lock().unwrap();
    unsafe { np::HOOK = Some(hook) };
    let timed_out = if timed {
        let (g2, r) = cv.wait_timeout(g, Duration::from_millis(5)).unwrap();
        // wait re-acquires the mutex before returning
        assert!(crate::sync::mutex::verif_kani::mutex_count(m) == 1, "C11: wait_timeout returned without holding the mutex");
        drop(g2);
        r.timed_out()
    } else {
        let g2 = cv.wait(g).unwrap();
        assert!(crate::sync::mutex::verif_kani::mutex_count(m) == 1, "C11: wait returned without holding the mutex");
        drop(g2);
        false
    };
    unsafe {
        np::HOOK = None;
        assert!(crate::sync::mutex::verif_kani::mutex_count(m) == 0);
        if timed_out {
            assert!(timed && TIMED_OUT, "C11: time-out reported without a time-out");
        }
        let w2_registered = W2.is_some();
        let w2_was_queued_before_notify = w2_registered; // refined below through the token
        if NOTIFY_LEFT {
            run_notify();
        }
        // a notify_one issued while >= 1 waiter was enqueued wakes at least one: the root, or -
        // when the root was simultaneously timing out - the second waiter through forwarding
        if let Some(w2) = W2.as_ref() {
            let w2_tok = *crate::sync::blocking::verif_kani::sync_blocker_token(w2);
            if timed_out && NOTIFIED_AFTER_ENQUEUE && !notify_all && W2_QUEUED_AT_NOTIFY {
                assert!(w2_tok == 1, "C11: the notification consumed by a timing-out waiter was not passed on to the next waiter");
            }
            if notify_all && W2_QUEUED_AT_NOTIFY {
                assert!(w2_tok == 1, "C11: notify_all did not wake a waiter that was enqueued");
            }
            let _ = w2_was_queued_before_notify;
            kani::cover!(timed_out && w2_tok == 1, "timing-out root forwarded the notification to the second waiter");
        }
        kani::cover!(!timed_out && ROOT_PARKED, "root parked and was woken by the notification");
    }
}
static mut W2_QUEUED_AT_NOTIFY: bool = false;
cv_harness! { #[kani::unwind(3)] fn c11_condvar_waiter_vs_notify_one_d1() { waiter_vs_notify(false) } }
cv_harness! { #[kani::unwind(3)] fn c11_condvar_waiter_vs_notify_all_d1() { waiter_vs_notify(true) } }

// reduced instances for the quick tier (the fully symbolic one above takes ~40 min)
cv_harness! { #[kani::unwind(3)] fn c11_condvar_untimed_waiter_vs_notify_one() { waiter_vs_notify_cfg(false, false, false) } }
cv_harness! { #[kani::unwind(3)] fn c11_condvar_timed_waiter_w2_vs_notify_one() { waiter_vs_notify_cfg(false, true, true) } }
cv_harness! { #[kani::unwind(3)] fn c11_condvar_timed_waiter_vs_notify_one() { waiter_vs_notify_cfg(false, true, false) } }
cv_harness! { #[kani::unwind(3)] fn c11_condvar_untimed_waiter_vs_notify_all() { waiter_vs_notify_cfg(true, false, false) } }

// ---- cancelled waiter (C11 "a waiter that ... is cancelled passes the notification on" / C09) ------
static mut CW_M: *const Mutex<u8> = std::ptr::null();
fn cv_cancel_panic_final() -> ! {
    unsafe {
        assert!(CANCEL_MODE && TIMED_OUT, "C09: cancel panic in a waiter that was never cancelled");
        np::HOOK = None;
        // Condvar::wait released the mutex before it raised the cancel panic
        assert!(crate::sync::mutex::verif_kani::mutex_count(&*CW_M) == 0, "C09/C11: the cancelled waiter left the mutex locked");
        assert!(!(*CW_M).is_poisoned(), "C09: mutex poisoned by a cancellation");
        if W2_LEFT {
            run_w2_enqueue();
        }
        if NOTIFY_LEFT {
            run_notify();
        }
        if let Some(w2) = W2.as_ref() {
            let w2_tok = *crate::sync::blocking::verif_kani::sync_blocker_token(w2);
            if W2_QUEUED_AT_NOTIFY {
                assert!(w2_tok == 1, "C11/C09: a notify_one issued with a live waiter enqueued woke nobody: the cancelled waiter did not pass the notification on");
            }
            kani::cover!(W2_QUEUED_AT_NOTIFY && np::PREEMPTS > 0, "notify landed inside the cancelled waiter's operation with a second waiter queued");
            kani::cover!(W2_QUEUED_AT_NOTIFY && np::PREEMPTS == 1, "notify after the cancelled waiter left (stale queue entry forwards)");
        }
    }
    kani::assume(false);
    unreachable!()
}
cv_harness! {
    #[kani::unwind(3)]
    #[kani::stub(crate::cancel::trigger_cancel_panic, cv_cancel_panic_final)]
    fn c11_condvar_cancelled_waiter_w2_vs_notify_one() {
        let cv: &'static Condvar = Box::leak(Box::new(Condvar::new()));
        let m: &'static Mutex<u8> = Box::leak(Box::new(Mutex::new(0u8)));
        unsafe {
            CV = cv;
            CW_M = m;
            CANCEL_MODE = true;
            NOTIFY_LEFT = true;
            NOTIFY_ALL = false;
            W2_LEFT = true;
        }
        let g = m.lock().unwrap();
        unsafe { np::HOOK = Some(hook) };
        // the root is cancelled at a solver-chosen moment; if the wake-up wins it returns normally
        let g2 = cv.wait(g).unwrap();
        unsafe { np::HOOK = None };
        assert!(crate::sync::mutex::verif_kani::mutex_count(m) == 1);
        drop(g2);
    }
}
