// harnesses for src/sync_poison (child module, cfg(kani) only)
