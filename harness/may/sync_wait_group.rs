// harnesses for src/sync_wait_group (child module, cfg(kani) only)
