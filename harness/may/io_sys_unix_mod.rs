// harnesses for src/io_sys_unix_mod (child module, cfg(kani) only)
