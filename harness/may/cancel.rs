// harnesses for src/cancel (child module, cfg(kani) only)
