// child module of src/cancel.rs (cfg(kani) only)
use super::*;

/// Stub for `CancelImpl::is_canceled` in harnesses that contain no canceller: the cancel bit is
/// never set there, which is asserted (not assumed) on every call; returning the constant lets
/// CBMC skip the cancel paths instead of exploring them under an unsatisfiable guard.
pub fn is_canceled_never<T: CancelIo>(c: &CancelImpl<T>) -> bool {
    assert!(unsafe { *c.state.as_ptr() } & 1 == 0, "model: cancel bit set in a harness without canceller");
    false
}
pub fn state_addr<T: CancelIo>(c: &CancelImpl<T>) -> *const u8 {
    c.state.as_ptr() as *const u8
}
