// harnesses for src/io_sys_unix_net_socket_read (child module, cfg(kani) only)
