// C07 / C06 (spsc channel, coroutine receiver): harnesses over the real src/sync/spsc.rs with the
// real may_queue::spsc queue.  Child module of src/sync/spsc.rs (cfg(kani) only).
//
// Real code: channel, Sender::{send, drop}, Receiver::recv, InnerQueue::{send, recv, try_recv,
// drop_chan}, Park::{new, subscribe, drop}, DropGuard, Blocker::{new_coroutine, into_coroutine,
// unpark}, yield_with, may_queue::spsc::Queue::{push, pop, is_empty}, crossbeam AtomicCell
// (real code; its AtomicU64 operations are schedule points).
// Models: context switch (co_yield_with runs the real subscribe, then the receiver stays
// suspended until its coroutine token is resumed), run_coroutine / Scheduler::schedule record
// the resumption.
use super::*;
use crate::cancel::Cancel;
use crate::scheduler::Scheduler;
use crate::verif_shim::{gen, np, rt, sa};
use std::panic as stdpanic;

static mut TX: Option<Sender<u8>> = None;
static mut SEND_LEFT: bool = false; // one send(7) before the drop
static mut SEND_DONE: bool = false;
static mut D_DONE: bool = false;
static mut RESUMED: usize = 0;
static mut SUSPENDS: usize = 0;
static mut CO_RAW: usize = 0;
static mut CANCEL: *const Cancel = std::ptr::null();

/// next whole operation of the sending side: [send(7)], then drop of the Sender
fn run_s() {
    unsafe {
        np::DEPTH += 1;
        np::PREEMPTS += 1;
        if SEND_LEFT {
            SEND_LEFT = false;
            let r = TX.as_ref().unwrap().send(7);
            assert!(r.is_ok(), "C07: send failed although the receiver is alive");
            SEND_DONE = true;
        } else {
            D_DONE = true;
            drop(TX.take());
        }
        np::DEPTH -= 1;
    }
}
fn hook() {
    unsafe {
        if np::DEPTH == 0 && !D_DONE && kani::any() {
            run_s();
        }
    }
}
fn resumed(co: CoroutineImpl) {
    let raw = co.into_raw() as usize;
    unsafe {
        assert!(raw == CO_RAW, "a coroutine object other than the receiver was resumed");
        RESUMED += 1;
    }
}
fn schedule_stub(_s: &Scheduler, co: CoroutineImpl) {
    resumed(co)
}
fn run_coroutine_stub(co: CoroutineImpl) {
    resumed(co)
}
fn is_coroutine_true() -> bool {
    true
}
fn current_cancel_data_stub() -> &'static Cancel {
    unsafe { &*CANCEL }
}
fn yield_now_prune() {
    kani::assume(false);
}
fn co_yield_with_stub<T: std::any::Any>(v: T) {
    let b: Box<dyn std::any::Any> = Box::new(v);
    let es = *b.downcast::<crate::coroutine_impl::EventSubscriber>().unwrap();
    let co = unsafe { CoroutineImpl::from_raw(CO_RAW as *mut usize) };
    unsafe {
        SUSPENDS += 1;
        RESUMED = 0;
    }
    es.subscribe(co);
    hook();
    unsafe {
        // suspended: the sending side finishes its program
        if RESUMED == 0 && !D_DONE {
            run_s();
        }
        if RESUMED == 0 && !D_DONE {
            run_s();
        }
        assert!(RESUMED <= 1, "C06: receiver resumed twice for one suspension");
        assert!(RESUMED == 1, "C07: receiver parked for ever after the last sender was dropped (or a value was sent)");
    }
}

macro_rules! chan_harness {
    ($(#[$m:meta])* fn $name:ident() $body:block) => {
        #[kani::proof]
        $(#[$m])*
        #[kani::stub(core::sync::atomic::Atomic::<bool>::load, sa::bool_load)]
        #[kani::stub(core::sync::atomic::Atomic::<bool>::store, sa::bool_store)]
        #[kani::stub(core::sync::atomic::Atomic::<usize>::load, sa::usize_load)]
        #[kani::stub(core::sync::atomic::Atomic::<usize>::store, sa::usize_store)]
        #[kani::stub(core::sync::atomic::Atomic::<*mut T>::load, sa::ptr_load)]
        #[kani::stub(core::sync::atomic::Atomic::<*mut T>::store, sa::ptr_store)]
        #[kani::stub(core::sync::atomic::Atomic::<u64>::swap, sa::u64_swap)]
        #[kani::stub(core::sync::atomic::Atomic::<u64>::store, sa::u64_store)]
        #[kani::stub(crate::scheduler::get_scheduler, rt::get_scheduler_stub)]
        #[kani::stub(crate::scheduler::Scheduler::schedule, schedule_stub)]
        #[kani::stub(crate::coroutine_impl::run_coroutine, run_coroutine_stub)]
        #[kani::stub(crate::coroutine_impl::is_coroutine, is_coroutine_true)]
        #[kani::stub(crate::coroutine_impl::current_cancel_data, current_cancel_data_stub)]
        #[kani::stub(crate::yield_now::yield_now, yield_now_prune)]
        #[kani::stub(generator::co_yield_with, co_yield_with_stub)]
        #[kani::stub(stdpanic::catch_unwind, rt::catch_unwind_stub)]
        #[kani::stub(stdpanic::take_hook, rt::take_hook_stub)]
        #[kani::stub(stdpanic::set_hook, rt::set_hook_stub)]
        #[kani::stub(std::sync::Arc::drop_slow, rt::arc_drop_slow_stub)]
        fn $name() $body
    };
}

fn setup(with_send: bool) -> Receiver<u8> {
    let cancel: &'static Cancel = Box::leak(Box::new(Cancel::new()));
    rt::install_scheduler();
    let (tx, rx) = channel::<u8>();
    let co: CoroutineImpl = gen::Generator::fresh();
    unsafe {
        CANCEL = cancel;
        CO_RAW = co.into_raw() as usize;
        TX = Some(tx);
        SEND_LEFT = with_send;
        np::HOOK = Some(hook);
    }
    rx
}

/// no value is ever sent; the last Sender is dropped at any atomic step of recv() (incl. the
/// window between the failed try_recv and the registration in Park::subscribe) or while the
/// receiver is parked: recv must return Disconnected, and only after the drop
chan_harness! {
    #[kani::unwind(4)]
    fn c07_spsc_co_recv_vs_last_sender_drop() {
        let rx = setup(false);
        let r = rx.recv();
        assert!(r.is_err(), "C06: recv returned a value that was never sent");
        assert!(unsafe { D_DONE }, "C07: Disconnected reported while the sender is alive");
        unsafe {
            kani::cover!(SUSPENDS == 1 && np::PREEMPTS > 0, "receiver suspended; the drop landed inside recv or while parked");
            kani::cover!(SUSPENDS == 0, "drop before recv: no suspension");
        }
        std::mem::forget(rx);
    }
}
/// send(7) then drop of the Sender, each at any atomic step: the value is received exactly once,
/// first, and Disconnected only afterwards
chan_harness! {
    #[kani::unwind(4)]
    fn c06_spsc_co_recv_send_then_drop() {
        let rx = setup(true);
        let r1 = rx.recv();
        assert!(r1 == Ok(7), "C06/C07: the sent value must be received before Disconnected");
        assert!(unsafe { SEND_DONE || !SEND_LEFT });
        hook();
        let r2 = rx.recv();
        assert!(r2.is_err(), "C06: a value was received twice");
        assert!(unsafe { D_DONE });
        unsafe {
            kani::cover!(SUSPENDS >= 1 && np::PREEMPTS > 0, "receiver suspended at least once");
        }
        std::mem::forget(rx);
    }
}

/// Twin with the roles exchanged: the drop of the last Sender is the root; the receiver has
/// already failed its try_recv (real call, before the drop begins) and its *registration* - the
/// real `Park::subscribe`, which the worker runs after the context switch - lands at any atomic
/// step of drop_chan, or after it.  Whatever the order, the receiver must end up resumed exactly
/// once (by subscribe's own re-check or by drop_chan), otherwise it is parked for ever.
chan_harness! {
    #[kani::unwind(4)]
    fn c07_spsc_last_sender_drop_vs_registering_receiver() {
        let rx = setup(false);
        unsafe { np::HOOK = None };
        // the receiver's first half: nothing queued, sender alive
        assert!(rx.inner.try_recv() == Err(TryRecvError::Empty));
        static mut REGISTERED: bool = false;
        static mut INNER: *const Arc<InnerQueue<u8>> = std::ptr::null();
        fn register() {
            unsafe {
                REGISTERED = true;
                np::DEPTH += 1;
                np::PREEMPTS += 1;
                let mut park = Park::new(&**INNER);
                let co = CoroutineImpl::from_raw(CO_RAW as *mut usize);
                park.subscribe(co);
                std::mem::forget(park);
                np::DEPTH -= 1;
            }
        }
        fn hook2() {
            unsafe {
                if np::DEPTH == 0 && !REGISTERED && kani::any() {
                    register();
                }
            }
        }
        unsafe {
            INNER = &rx.inner;
            np::HOOK = Some(hook2);
            D_DONE = true;
            drop(TX.take());
            np::HOOK = None;
            kani::cover!(REGISTERED && np::PREEMPTS > 0, "the registration landed inside drop_chan");
            if !REGISTERED {
                register();
            }
            assert!(RESUMED <= 1, "C06: receiver resumed twice");
            assert!(RESUMED == 1, "C07: the last sender is gone and the registered receiver was never resumed (parked for ever)");
        }
        // resumed: it now observes the disconnect
        assert!(rx.inner.try_recv() == Err(TryRecvError::Disconnected));
        std::mem::forget(rx);
    }
}
