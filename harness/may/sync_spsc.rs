// C06 / C07 (spsc channel): harnesses over the real src/sync/spsc.rs with the real
// may_queue::spsc queue.  Child module of src/sync/spsc.rs (cfg(kani) only).
//
// Real code: channel, Sender::{send, drop}, Receiver::{recv, try_recv}, InnerQueue::{send, recv,
// try_recv, drop_chan}, Park::{new, subscribe, drop}, DropGuard, Blocker::{new_coroutine,
// into_coroutine, unpark}, yield_with, may_queue::spsc::Queue::{push, pop, is_empty}.
// Models: context switch (co_yield_with), resumption of the coroutine token (run_coroutine /
// Scheduler::schedule), crossbeam AtomicCell = one atomic cell.  The receiver is a coroutine.
use super::*;
use crate::cancel::Cancel;
use crate::scheduler::Scheduler;
use crate::verif_shim::{gen, np, rt, sa};
use std::panic as stdpanic;

static mut MAXD: usize = 1;
static mut TX: Option<Sender<u8>> = None;
static mut SEND_LEFT: usize = 0; // sends before the drop
static mut SENT: u8 = 0;
static mut SEND_DONE: u8 = 0;
static mut DROP_LEFT: bool = false;
static mut DROP_DONE: bool = false;
static mut IN_S: bool = false;
static mut CANCEL: *const Cancel = std::ptr::null();
static mut CO_RAW: usize = 0;
static mut SUSPENDED: bool = false;
static mut RESUMED: usize = 0;
static mut SUSPENDS: usize = 0;

/// next whole operation of the sending side: send(1), send(2), ..., then drop of the Sender
fn run_s() {
    unsafe {
        IN_S = true;
        if SEND_LEFT > 0 {
            SEND_LEFT -= 1;
            SENT += 1;
            let r = TX.as_ref().unwrap().send(SENT);
            assert!(r.is_ok(), "C07: send failed although the receiver is alive");
            SEND_DONE += 1;
        } else {
            DROP_LEFT = false;
            drop(TX.take());
            DROP_DONE = true;
        }
        IN_S = false;
    }
}
fn s_left() -> bool {
    unsafe { SEND_LEFT > 0 || DROP_LEFT }
}
fn hook() {
    unsafe {
        if np::DEPTH < MAXD && !IN_S && s_left() && kani::any() {
            np::nested(run_s);
        }
    }
}
fn resumed(co: CoroutineImpl) {
    let raw = co.into_raw() as usize;
    unsafe {
        assert!(raw == CO_RAW, "a coroutine object other than the receiver was resumed");
        assert!(SUSPENDED, "C06: receiver resumed while it is not suspended");
        assert!(RESUMED == 0, "C06: receiver resumed twice for one suspension");
        RESUMED += 1;
    }
}
fn schedule_stub(_s: &Scheduler, co: CoroutineImpl) {
    resumed(co)
}
fn run_coroutine_stub(co: CoroutineImpl) {
    resumed(co)
}
fn is_coroutine_true() -> bool {
    true
}
fn current_cancel_data_stub() -> &'static Cancel {
    unsafe { &*CANCEL }
}
fn co_yield_with_stub<T: std::any::Any>(v: T) {
    let b: Box<dyn std::any::Any> = Box::new(v);
    let es = *b.downcast::<crate::coroutine_impl::EventSubscriber>().unwrap();
    let co = unsafe { CoroutineImpl::from_raw(CO_RAW as *mut usize) };
    unsafe {
        SUSPENDED = true;
        RESUMED = 0;
        SUSPENDS += 1;
    }
    es.subscribe(co);
    unsafe {
        // suspended: the sending side finishes its program (each operation with schedule points)
        let mut i = 0;
        while RESUMED == 0 && s_left() && i < 4 {
            run_s();
            i += 1;
        }
        if RESUMED == 0 {
            assert!(!DROP_DONE, "C07: receiver stays parked for ever after the last sender was dropped");
            assert!(SEND_DONE == RECEIVED, "C06: receiver stays parked for ever although a sent value is queued (lost wake-up)");
            kani::assume(false);
        }
        SUSPENDED = false;
    }
}
static mut RECEIVED: u8 = 0;

macro_rules! chan_harness {
    ($(#[$m:meta])* fn $name:ident() $body:block) => {
        #[kani::proof]
        $(#[$m])*
        #[kani::stub(core::sync::atomic::Atomic::<bool>::load, sa::bool_load)]
        #[kani::stub(core::sync::atomic::Atomic::<bool>::store, sa::bool_store)]
        #[kani::stub(core::sync::atomic::Atomic::<usize>::load, sa::usize_load)]
        #[kani::stub(core::sync::atomic::Atomic::<usize>::store, sa::usize_store)]
        #[kani::stub(core::sync::atomic::Atomic::<*mut T>::load, sa::ptr_load)]
        #[kani::stub(core::sync::atomic::Atomic::<*mut T>::store, sa::ptr_store)]
        #[kani::stub(crossbeam::atomic::AtomicCell::swap, rt::cell_swap)]
        #[kani::stub(crossbeam::atomic::AtomicCell::store, rt::cell_store)]
        #[kani::stub(crossbeam::atomic::AtomicCell::take, rt::cell_take)]
        #[kani::stub(crate::scheduler::get_scheduler, rt::get_scheduler_stub)]
        #[kani::stub(crate::scheduler::Scheduler::schedule, schedule_stub)]
        #[kani::stub(crate::coroutine_impl::run_coroutine, run_coroutine_stub)]
        #[kani::stub(crate::coroutine_impl::is_coroutine, is_coroutine_true)]
        #[kani::stub(crate::coroutine_impl::current_cancel_data, current_cancel_data_stub)]
        #[kani::stub(crate::yield_now::yield_now, rt::yield_now_unreachable)]
        #[kani::stub(generator::co_yield_with, co_yield_with_stub)]
        #[kani::stub(stdpanic::catch_unwind, rt::catch_unwind_stub)]
        #[kani::stub(stdpanic::take_hook, rt::take_hook_stub)]
        #[kani::stub(stdpanic::set_hook, rt::set_hook_stub)]
        #[kani::stub(std::thread::panicking, np::panicking_stub)]
        #[kani::stub(std::sync::Arc::drop_slow, rt::arc_drop_slow_stub)]
        fn $name() $body
    };
}

/// coroutine receiver: recv() until Disconnected; the sender sends 0..=`max_send` values and is
/// then dropped; each of its operations lands at any atomic step of the receiver's recv (incl.
/// the window between the failed try_recv and the registration in Park::subscribe)
fn co_recv_vs_sender(depth: usize, max_send: usize) {
    let cancel: &'static Cancel = Box::leak(Box::new(Cancel::new()));
    rt::install_scheduler();
    let (tx, rx) = channel::<u8>();
    let co: CoroutineImpl = gen::Generator::fresh();
    let n: usize = kani::any();
    kani::assume(n <= max_send);
    unsafe {
        CANCEL = cancel;
        CO_RAW = co.into_raw() as usize;
        TX = Some(tx);
        SEND_LEFT = n;
        DROP_LEFT = true;
        MAXD = depth;
        np::HOOK = Some(hook);
    }
    let mut i = 0;
    loop {
        let r = rx.recv();
        unsafe {
            match r {
                Ok(v) => {
                    assert!(v == RECEIVED + 1, "C06: value received out of order, twice, or never sent");
                    assert!(v <= SENT, "C06: received a value whose send has not started");
                    RECEIVED += 1;
                }
                Err(_) => {
                    assert!(DROP_DONE || !DROP_LEFT, "C07: Disconnected reported while the sender is alive");
                    assert!(RECEIVED == SENT && SEND_LEFT == 0, "C07: Disconnected reported before the queued values were drained");
                    break;
                }
            }
        }
        hook();
        i += 1;
        if i > max_send {
            break;
        }
    }
    unsafe {
        kani::cover!(SUSPENDS > 0 && np::PREEMPTS > 0, "sender operation landed inside recv and the receiver suspended");
        kani::cover!(RECEIVED as usize == n && n > 0, "all values received");
    }
    std::mem::forget(rx);
}
chan_harness! { #[kani::unwind(3)] fn c07_spsc_co_recv_vs_drop_d1() { co_recv_vs_sender(1, 0) } }
chan_harness! { #[kani::unwind(3)] fn c06_spsc_co_recv_send_drop_d1() { co_recv_vs_sender(1, 1) } }
chan_harness! { #[kani::unwind(6)] fn c06_spsc_co_recv_2send_drop_d2() { co_recv_vs_sender(2, 2) } }
