// harnesses for src/sync_spsc (child module, cfg(kani) only)
