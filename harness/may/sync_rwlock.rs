// harnesses for src/sync_rwlock (child module, cfg(kani) only)
