// C12: harnesses over the real src/sync/rwlock.rs (+ inner Mutex<usize>, poison.rs).
// Child module of src/sync/rwlock.rs (cfg(kani) only).  The poison types come from the shim copy
// of std's panic=unwind definitions (Kani's libstd is panic=abort, where PoisonError is
// uninhabited and every Poisoned path would silently vanish).
use super::*;
use crate::sync::blocking::Blocker;
use crate::verif_shim::{np, rt, sa};
use std::panic as stdpanic;

fn is_coroutine_false() -> bool {
    false
}
/// these harnesses never call a blocking operation that cannot proceed at once; reaching park
/// means the lock was not free although the model says it is: a lost release
fn park_unreachable(_b: &Blocker, _t: Option<std::time::Duration>) -> Result<(), ParkError> {
    assert!(false, "C12: read()/write() had to block although no conflicting guard is alive (lock leaked)");
    kani::assume(false);
    Ok(())
}
fn unpark_nop(_b: &Blocker) {}
/// the waiter queues are only touched under contention, which these harnesses never create
/// (asserted): keeps the lock-free queue code out of the formula
fn segq_push_unreachable<T>(_q: &SegQueue<T>, v: T) {
    assert!(false, "model: waiter queue used without contention");
    std::mem::forget(v);
    kani::assume(false);
}
fn segq_pop_unreachable<T>(_q: &SegQueue<T>) -> Option<T> {
    assert!(false, "C12: unlock found a waiter count > 1 although nobody waits (count corrupted)");
    kani::assume(false);
    None
}
fn mq_push_unreachable<T>(_q: &may_queue::mpsc::Queue<T>, v: T) {
    assert!(false, "model: waiter queue used without contention");
    std::mem::forget(v);
    kani::assume(false);
}
fn mq_pop_unreachable<T>(_q: &may_queue::mpsc::Queue<T>) -> Option<T> {
    assert!(false, "C12: inner mutex unlock found a waiter count > 1 although nobody waits");
    kani::assume(false);
    None
}

macro_rules! rw_harness {
    ($(#[$m:meta])* fn $name:ident() $body:block) => {
        #[kani::proof]
        $(#[$m])*
        #[kani::stub(stdpanic::catch_unwind, rt::catch_unwind_stub)]
        #[kani::stub(stdpanic::take_hook, rt::take_hook_stub)]
        #[kani::stub(stdpanic::set_hook, rt::set_hook_stub)]
        #[kani::stub(crate::sync::blocking::Blocker::park, park_unreachable)]
        #[kani::stub(crate::sync::blocking::Blocker::unpark, unpark_nop)]
        #[kani::stub(crossbeam::queue::SegQueue::push, segq_push_unreachable)]
        #[kani::stub(crossbeam::queue::SegQueue::pop, segq_pop_unreachable)]
        #[kani::stub(may_queue::mpsc::Queue::push, mq_push_unreachable)]
        #[kani::stub(may_queue::mpsc::Queue::pop, mq_pop_unreachable)]
        #[kani::stub(std::thread::panicking, np::panicking_stub)]
        #[kani::stub(crate::coroutine_impl::is_coroutine, is_coroutine_false)]
        #[kani::stub(std::sync::Arc::drop_slow, rt::arc_drop_slow_stub)]
        fn $name() $body
    };
}

fn take_read<'a>(r: TryLockResult<RwLockReadGuard<'a, u8>>, poisoned: bool) -> Option<RwLockReadGuard<'a, u8>> {
    match r {
        Ok(g) => {
            assert!(!poisoned, "C12: Ok guard from a poisoned lock");
            Some(g)
        }
        Err(TryLockError::Poisoned(e)) => {
            assert!(poisoned, "C12: Poisoned error from a clean lock");
            Some(e.into_inner())
        }
        Err(TryLockError::WouldBlock) => None,
    }
}
fn take_write<'a>(r: TryLockResult<RwLockWriteGuard<'a, u8>>, poisoned: bool) -> Option<RwLockWriteGuard<'a, u8>> {
    match r {
        Ok(g) => {
            assert!(!poisoned, "C12: Ok guard from a poisoned lock");
            Some(g)
        }
        Err(TryLockError::Poisoned(e)) => {
            assert!(poisoned, "C12: Poisoned error from a clean lock");
            Some(e.into_inner())
        }
        Err(TryLockError::WouldBlock) => None,
    }
}
fn lr_read<'a>(r: LockResult<RwLockReadGuard<'a, u8>>) -> RwLockReadGuard<'a, u8> {
    match r {
        Ok(g) => g,
        Err(e) => e.into_inner(),
    }
}
fn lr_write<'a>(r: LockResult<RwLockWriteGuard<'a, u8>>) -> RwLockWriteGuard<'a, u8> {
    match r {
        Ok(g) => g,
        Err(e) => e.into_inner(),
    }
}

/// H-seq: a solver-chosen history of `N` operations from {try_read, try_write, read, write,
/// drop read guard, drop write guard, drop write guard while panicking} on a lock that starts
/// clean, guards recovered from PoisonError included.  Reference model: number of live read
/// guards, live write guard, poisoned flag.
fn seq_history(n_ops: usize) {
    let l: &'static RwLock<u8> = Box::leak(Box::new(RwLock::new(0u8)));
    let mut rg: [Option<RwLockReadGuard<'static, u8>>; 2] = [None, None];
    let mut wg: Option<RwLockWriteGuard<'static, u8>> = None;
    let mut poisoned = false;
    let mut n = 0;
    while n < n_ops {
        let readers = rg[0].is_some() as usize + rg[1].is_some() as usize;
        let writer = wg.is_some();
        let op: u8 = kani::any();
        match op {
            0 => {
                let slot = if rg[0].is_none() { 0 } else { 1 };
                if rg[slot].is_none() {
                    let g = take_read(l.try_read(), poisoned);
                    if writer {
                        assert!(g.is_none(), "C12: try_read succeeded while a write guard is alive");
                    } else {
                        assert!(g.is_some(), "C12: try_read refused although no writer holds the lock");
                    }
                    rg[slot] = g;
                }
            }
            1 => {
                if !writer {
                    let g = take_write(l.try_write(), poisoned);
                    if readers > 0 {
                        assert!(g.is_none(), "C12: try_write succeeded while read guards are alive");
                    } else {
                        assert!(g.is_some(), "C12: try_write refused although the lock is free (lock leaked)");
                    }
                    wg = g;
                }
            }
            2 => {
                // blocking read: only when it can proceed
                if !writer && rg[1].is_none() {
                    let slot = if rg[0].is_none() { 0 } else { 1 };
                    let r = l.read();
                    assert!(r.is_err() == poisoned);
                    rg[slot] = Some(lr_read(r));
                }
            }
            3 => {
                if !writer && readers == 0 {
                    let r = l.write();
                    assert!(r.is_err() == poisoned);
                    wg = Some(lr_write(r));
                }
            }
            4 => {
                let slot: usize = if kani::any() { 0 } else { 1 };
                let g = rg[slot].take();
                drop(g);
            }
            5 => {
                let g = wg.take();
                drop(g);
            }
            _ => {
                // the holder of the write guard panics: the guard is dropped by the unwind
                if let Some(g) = wg.take() {
                    unsafe { np::PANICKING = true };
                    drop(g);
                    unsafe { np::PANICKING = false };
                    poisoned = true;
                }
            }
        }
        assert!(l.is_poisoned() == poisoned, "C12: poison flag disagrees with the history");
        n += 1;
    }
    kani::cover!(poisoned && rg[0].is_some(), "a read guard was obtained from a poisoned lock");
    kani::cover!(poisoned && wg.is_some(), "a write guard was obtained from a poisoned lock");
    // all guards dropped: the lock is free again
    let a = rg[0].take();
    drop(a);
    let b = rg[1].take();
    drop(b);
    let c = wg.take();
    drop(c);
    let g = take_write(l.try_write(), poisoned);
    assert!(g.is_some(), "C12: after all guards were dropped try_write still reports WouldBlock (lock leaked)");
    std::mem::forget(g);
}
rw_harness! { #[kani::unwind(5)] fn c12_rwlock_seq_3ops() { seq_history(3) } }
rw_harness! { #[kani::unwind(6)] fn c12_rwlock_seq_4ops() { seq_history(4) } }
rw_harness! { #[kani::unwind(8)] fn c12_rwlock_seq_6ops() { seq_history(6) } }

fn maybe_poison(l: &'static RwLock<u8>) -> bool {
    let poisoned: bool = kani::any();
    if poisoned {
        let g = lr_write(l.write());
        unsafe { np::PANICKING = true };
        drop(g);
        unsafe { np::PANICKING = false };
    }
    assert!(l.is_poisoned() == poisoned);
    poisoned
}
fn assert_free(l: &'static RwLock<u8>, poisoned: bool) {
    let g = take_write(l.try_write(), poisoned);
    assert!(g.is_some(), "C12: after all guards were dropped try_write still reports WouldBlock (lock leaked)");
    drop(g);
    let g = take_read(l.try_read(), poisoned);
    assert!(g.is_some(), "C12: after all guards were dropped try_read reports WouldBlock (lock leaked)");
    drop(g);
}
/// scenario: (clean | poisoned) lock; one or two readers through try_read / read in a
/// solver-chosen mix, dropped in a solver-chosen order; writers are refused meanwhile; free after
fn readers_scenario() {
    let l: &'static RwLock<u8> = Box::leak(Box::new(RwLock::new(0u8)));
    let poisoned = maybe_poison(l);
    let g1 = if kani::any() { take_read(l.try_read(), poisoned) } else { Some(lr_read(l.read())) };
    assert!(g1.is_some(), "C12: a free lock refused a reader");
    let two: bool = kani::any();
    let g2 = if two {
        let g = if kani::any() { take_read(l.try_read(), poisoned) } else { Some(lr_read(l.read())) };
        assert!(g.is_some(), "C12: second reader refused although only readers hold the lock");
        g
    } else {
        None
    };
    assert!(take_write(l.try_write(), poisoned).is_none(), "C12: try_write succeeded while read guards are alive");
    if kani::any() {
        drop(g1);
        if two {
            assert!(take_write(l.try_write(), poisoned).is_none(), "C12: writer admitted while a reader is left");
        }
        drop(g2);
    } else {
        drop(g2);
        assert!(take_write(l.try_write(), poisoned).is_none(), "C12: writer admitted while a reader is left");
        drop(g1);
    }
    kani::cover!(poisoned && two, "two read guards recovered from a poisoned lock");
    kani::cover!(!poisoned, "clean lock");
    assert_free(l, poisoned);
}
rw_harness! { #[kani::unwind(5)] fn c12_rwlock_readers_scenario() { readers_scenario() } }

/// scenario: (clean | poisoned) lock; a writer through try_write / write; readers and writers
/// are refused meanwhile; the guard is dropped normally or by a panic; free (and poisoned iff a
/// panic dropped a guard) afterwards
fn writer_scenario() {
    let l: &'static RwLock<u8> = Box::leak(Box::new(RwLock::new(0u8)));
    let mut poisoned = maybe_poison(l);
    let g = if kani::any() { take_write(l.try_write(), poisoned) } else { Some(lr_write(l.write())) };
    assert!(g.is_some(), "C12: a free lock refused a writer");
    assert!(take_write(l.try_write(), poisoned).is_none(), "C12: two write guards at once");
    assert!(take_read(l.try_read(), poisoned).is_none(), "C12: read guard handed out while a write guard is alive");
    if kani::any() {
        unsafe { np::PANICKING = true };
        drop(g);
        unsafe { np::PANICKING = false };
        poisoned = true;
    } else {
        drop(g);
    }
    assert!(l.is_poisoned() == poisoned, "C13: poison flag wrong after the write guard was dropped");
    kani::cover!(poisoned, "poisoned path");
    assert_free(l, poisoned);
}
rw_harness! { #[kani::unwind(5)] fn c12_rwlock_writer_scenario() { writer_scenario() } }

// ---- H-np: two lockers race on a clean or poisoned lock -------------------------------------------
static mut L: *const RwLock<u8> = std::ptr::null();
static mut B_LEFT: bool = false;
static mut B_KIND: u8 = 0; // 0 try_write, 1 try_read
static mut B_HOLDS: bool = false;
static mut POISONED: bool = false;
fn run_b() {
    unsafe {
        B_LEFT = false;
        np::nested(|| {
            if B_KIND == 0 {
                let g = take_write((*L).try_write(), POISONED);
                B_HOLDS = g.is_some();
                std::mem::forget(g);
            } else {
                let g = take_read((*L).try_read(), POISONED);
                B_HOLDS = g.is_some();
                std::mem::forget(g);
            }
        });
    }
}
fn hook() {
    unsafe {
        if np::DEPTH == 0 && B_LEFT && kani::any() {
            run_b();
        }
    }
}
macro_rules! rw_np_harness {
    ($(#[$m:meta])* fn $name:ident() $body:block) => {
        rw_harness! {
            $(#[$m])*
            #[kani::stub(core::sync::atomic::Atomic::<usize>::load, sa::usize_load)]
            #[kani::stub(core::sync::atomic::Atomic::<usize>::compare_exchange, sa::usize_cas)]
            #[kani::stub(core::sync::atomic::Atomic::<usize>::fetch_sub, sa::usize_fetch_sub)]
            fn $name() $body
        }
    };
}
/// A = try_write (or try_read); B's whole try_write / try_read lands at any atomic step of A
/// (or after it).  Never two writers, never a writer together with a reader - also when the lock
/// is poisoned and both callers recover their guard from the PoisonError.
fn two_lockers() {
    let l: &'static RwLock<u8> = Box::leak(Box::new(RwLock::new(0u8)));
    let poisoned: bool = kani::any();
    if poisoned {
        let g = lr_write(l.write());
        unsafe { np::PANICKING = true };
        drop(g);
        unsafe { np::PANICKING = false };
    }
    let a_kind: u8 = if kani::any() { 0 } else { 1 };
    unsafe {
        L = l;
        POISONED = poisoned;
        B_KIND = if kani::any() { 0 } else { 1 };
        B_LEFT = true;
        np::HOOK = Some(hook);
    }
    let a_holds = if a_kind == 0 {
        let g = take_write(l.try_write(), poisoned);
        let h = g.is_some();
        std::mem::forget(g);
        h
    } else {
        let g = take_read(l.try_read(), poisoned);
        let h = g.is_some();
        std::mem::forget(g);
        h
    };
    unsafe {
        np::HOOK = None;
        if B_LEFT {
            run_b();
        }
        let both = a_holds && B_HOLDS;
        if a_kind == 0 || B_KIND == 0 {
            assert!(!both, "C12: two guards handed out at once although one of them is a write guard");
        }
        assert!(a_holds || B_HOLDS, "C12: both lockers were refused although the lock was free");
        kani::cover!(poisoned && np::PREEMPTS > 0 && !both, "race on a poisoned lock, one winner");
        kani::cover!(a_kind == 1 && B_KIND == 1 && both, "two readers share the lock");
    }
}
rw_np_harness! { #[kani::unwind(5)] fn c12_rwlock_np_two_lockers() { two_lockers() } }


// ---------------------------------------------------------------------------------------------
// cancelled waiter (C12 "cancellation of waiters" / C09): H holds the write lock; the root W
// blocks in write(); W's park gives up with Err(Canceled) at a solver-chosen moment (before,
// after or together with the hand-off); H's whole guard drop lands at any atomic step of W's
// give-up hand-shake.  W leaves through the cancel panic; afterwards no guard is alive, so
// try_write must succeed.
// ---------------------------------------------------------------------------------------------
static mut CW_L: *const RwLock<u8> = std::ptr::null();
static mut H_GUARD: Option<RwLockWriteGuard<'static, u8>> = None;
static mut H_LEFT: bool = false;
static mut W_CANCELED: bool = false;
static mut QTAB: [u64; 4] = [0; 4];
static mut QH: usize = 0;
static mut QT: usize = 0;
fn cw_q_push<T>(_q: &SegQueue<T>, v: T) {
    np::point();
    assert!(std::mem::size_of::<T>() == 8);
    unsafe {
        assert!(QT < 4);
        QTAB[QT] = std::mem::transmute_copy::<T, u64>(&v);
        QT += 1;
    }
    std::mem::forget(v);
}
fn cw_q_pop<T>(_q: &SegQueue<T>) -> Option<T> {
    np::point();
    unsafe {
        if QH == QT {
            None
        } else {
            let r = std::mem::transmute_copy::<u64, T>(&QTAB[QH]);
            QH += 1;
            Some(r)
        }
    }
}
fn run_h_drop() {
    unsafe {
        H_LEFT = false;
        let g = H_GUARD.take();
        drop(g);
    }
}
fn cw_hook() {
    unsafe {
        if np::DEPTH == 0 && H_LEFT && kani::any() {
            np::nested(run_h_drop);
        }
    }
}
fn cw_unpark(b: &Blocker) {
    np::point();
    unsafe { *crate::sync::blocking::verif_kani::blocker_token(b) = 1 };
}
fn cw_park(b: &Blocker, _t: Option<std::time::Duration>) -> Result<(), ParkError> {
    np::point();
    let tok = crate::sync::blocking::verif_kani::blocker_token(b);
    unsafe {
        if kani::any() {
            W_CANCELED = true;
            return Err(ParkError::Canceled);
        }
        if *tok == 0 && H_LEFT {
            run_h_drop();
        }
        if kani::any() {
            W_CANCELED = true;
            return Err(ParkError::Canceled);
        }
        assert!(*tok != 0, "C12: blocked writer not woken when the write guard was dropped");
        *tok = 0;
        Ok(())
    }
}
fn cw_cancel_panic() -> ! {
    unsafe {
        assert!(W_CANCELED, "C09: cancel panic in a waiter that was never cancelled");
        np::HOOK = None;
        if H_LEFT {
            run_h_drop();
        }
        let l = &*CW_L;
        assert!(!l.is_poisoned(), "C09: lock poisoned by a cancellation");
        let g = take_write(l.try_write(), false);
        assert!(g.is_some(), "C12/C09: no guard is alive but try_write reports WouldBlock (lock handed to a cancelled waiter and never released)");
        std::mem::forget(g);
        kani::cover!(np::PREEMPTS > 0, "the holder's release landed inside the cancelled waiter's give-up hand-shake");
        kani::cover!(np::PREEMPTS == 0, "cancel without overlap");
    }
    kani::assume(false);
    unreachable!()
}
#[kani::proof]
#[kani::unwind(4)]
#[kani::stub(core::sync::atomic::Atomic::<usize>::load, sa::usize_load)]
#[kani::stub(core::sync::atomic::Atomic::<usize>::compare_exchange, sa::usize_cas)]
#[kani::stub(core::sync::atomic::Atomic::<usize>::fetch_add, sa::usize_fetch_add)]
#[kani::stub(core::sync::atomic::Atomic::<usize>::fetch_sub, sa::usize_fetch_sub)]
#[kani::stub(core::sync::atomic::Atomic::<bool>::load, sa::bool_load)]
#[kani::stub(core::sync::atomic::Atomic::<bool>::store, sa::bool_store)]
#[kani::stub(core::sync::atomic::Atomic::<bool>::swap, sa::bool_swap)]
#[kani::stub(crossbeam::queue::SegQueue::push, cw_q_push)]
#[kani::stub(crossbeam::queue::SegQueue::pop, cw_q_pop)]
#[kani::stub(may_queue::mpsc::Queue::push, mq_push_unreachable)]
#[kani::stub(may_queue::mpsc::Queue::pop, mq_pop_unreachable)]
#[kani::stub(crate::sync::blocking::Blocker::park, cw_park)]
#[kani::stub(crate::sync::blocking::Blocker::unpark, cw_unpark)]
#[kani::stub(crate::cancel::trigger_cancel_panic, cw_cancel_panic)]
#[kani::stub(crate::coroutine_impl::is_coroutine, is_coroutine_false)]
#[kani::stub(std::thread::panicking, np::panicking_stub)]
#[kani::stub(stdpanic::catch_unwind, rt::catch_unwind_stub)]
#[kani::stub(stdpanic::take_hook, rt::take_hook_stub)]
#[kani::stub(stdpanic::set_hook, rt::set_hook_stub)]
#[kani::stub(std::sync::Arc::drop_slow, rt::arc_drop_slow_stub)]
fn c12_rwlock_cancelled_writer_d1() {
    let l: &'static RwLock<u8> = Box::leak(Box::new(RwLock::new(0u8)));
    unsafe {
        CW_L = l;
        H_GUARD = Some(lr_write(l.write()));
        H_LEFT = true;
        np::HOOK = Some(cw_hook);
    }
    let r = l.write();
    unsafe {
        // not cancelled (or the wake-up won): W holds the lock now
        assert!(r.is_ok());
        assert!(!H_LEFT, "C12: second writer admitted while the first write guard is alive");
        np::HOOK = None;
        drop(r);
        let g = take_write(l.try_write(), false);
        assert!(g.is_some());
        std::mem::forget(g);
    }
}

// ---- C13: a write guard dropped by a panic poisons *before* it releases --------------------------
/// root: the panicking writer's guard drop; a contender's whole try_write / try_read lands at any
/// atomic step of it (or after).  A contender that gets the lock after a writer panicked inside
/// it must be told so (Poisoned), never handed an Ok guard over half-updated data.
static mut C_LEFT: bool = false;
static mut C_GOT_OK: bool = false;
static mut C_GOT_ANY: bool = false;
fn run_contender() {
    unsafe {
        C_LEFT = false;
        np::nested(|| {
            if B_KIND == 0 {
                match (*L).try_write() {
                    Ok(g) => {
                        C_GOT_OK = true;
                        C_GOT_ANY = true;
                        std::mem::forget(g);
                    }
                    Err(TryLockError::Poisoned(e)) => {
                        C_GOT_ANY = true;
                        std::mem::forget(e);
                    }
                    Err(TryLockError::WouldBlock) => {}
                }
            } else {
                match (*L).try_read() {
                    Ok(g) => {
                        C_GOT_OK = true;
                        C_GOT_ANY = true;
                        std::mem::forget(g);
                    }
                    Err(TryLockError::Poisoned(e)) => {
                        C_GOT_ANY = true;
                        std::mem::forget(e);
                    }
                    Err(TryLockError::WouldBlock) => {}
                }
            }
        });
    }
}
fn hook_contender() {
    unsafe {
        if np::DEPTH == 0 && C_LEFT && kani::any() {
            run_contender();
        }
    }
}
rw_harness! {
    #[kani::unwind(5)]
    #[kani::stub(core::sync::atomic::Atomic::<usize>::load, sa::usize_load)]
    #[kani::stub(core::sync::atomic::Atomic::<usize>::store, sa::usize_store)]
    #[kani::stub(core::sync::atomic::Atomic::<usize>::compare_exchange, sa::usize_cas)]
    #[kani::stub(core::sync::atomic::Atomic::<usize>::fetch_sub, sa::usize_fetch_sub)]
    fn c13_rwlock_panicking_writer_drop_vs_contender() {
        let l: &'static RwLock<u8> = Box::leak(Box::new(RwLock::new(0u8)));
        let g = lr_write(l.write());
        unsafe {
            L = l;
            B_KIND = if kani::any() { 0 } else { 1 };
            C_LEFT = true;
            np::PANICKING = true; // the writer panics while it holds the guard
            np::HOOK = Some(hook_contender);
        }
        drop(g);
        unsafe {
            np::HOOK = None;
            np::PANICKING = false;
            let inside = !C_LEFT;
            if C_LEFT {
                run_contender();
            }
            assert!(!C_GOT_OK, "C13: a contender was handed an Ok guard although the writer panicked while holding the lock (poison flag set too late)");
            assert!(l.is_poisoned());
            kani::cover!(inside && !C_GOT_ANY, "contender was refused inside the drop (lock still held)");
            kani::cover!(!inside && C_GOT_ANY && !C_GOT_OK, "contender after the drop: Poisoned");
        }
    }
}
