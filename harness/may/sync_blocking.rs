// harnesses for src/sync_blocking (child module, cfg(kani) only)
