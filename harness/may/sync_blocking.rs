// child module of src/sync/blocking.rs (cfg(kani) only).
//
// ThreadPark is 12 lines over parking_lot's Mutex + Condvar, neither of which Kani can encode
// (thread-local ThreadData, futex, std's rtabort stderr formatting).  It is always replaced by a
// model (per harness) of the token contract it is meant to implement: trusted, never "verified".
use super::*;

/// the token of a ThreadPark (its mutex-protected word), for the per-harness models
pub fn thread_token(t: &ThreadPark) -> *mut usize {
    t.lock.data_ptr()
}
