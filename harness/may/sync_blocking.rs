// child module of src/sync/blocking.rs (cfg(kani) only).
//
// ThreadPark is 12 lines over parking_lot's Mutex + Condvar, neither of which Kani can encode
// (thread-local ThreadData, futex, std's rtabort stderr formatting).  It is always replaced by a
// model (per harness) of the token contract it is meant to implement: trusted, never "verified".
use super::*;

/// the token of a ThreadPark (its mutex-protected word), for the per-harness models
pub fn thread_token(t: &ThreadPark) -> *mut usize {
    t.lock.data_ptr()
}

/// the wake token of a Blocker as the per-harness park/unpark models see it (callers of these
/// harnesses are plain threads, so the parker is always the ThreadPark flavour)
pub fn blocker_token(b: &Blocker) -> *mut usize {
    match b.parker {
        Parker::Thread(ref t) => thread_token(t),
        Parker::Coroutine(_) => {
            assert!(false, "model: coroutine parker in a thread-flavour harness");
            std::ptr::null_mut()
        }
    }
}

/// Stub for `SyncBlocker::take_release` in harnesses without cancellation or time-outs: the
/// release flag is only ever set by a waiter that gave up (cancel / time-out), so it is never set
/// there - asserted, not assumed.  Returning the constant lets CBMC drop the
/// unlock -> unpark_one -> unlock recursion instead of unrolling it under an unsatisfiable guard.
pub fn take_release_never(b: &SyncBlocker) -> bool {
    assert!(!unsafe { *b.release.as_ptr() }, "model: release flag set in a harness where no waiter gives up");
    false
}

/// stubs for harnesses in which every party is a coroutine: the thread parker must not be used
pub fn tp_park_unreachable(_t: &ThreadPark, _d: Option<Duration>) -> Result<(), ParkError> {
    assert!(false, "model: thread park in a coroutine harness");
    Ok(())
}
pub fn tp_unpark_unreachable(_t: &ThreadPark) {
    assert!(false, "model: thread unpark in a coroutine harness");
}

/// wake token of a SyncBlocker (its inner Blocker is private to blocking.rs)
pub fn sync_blocker_token(b: &SyncBlocker) -> *mut usize {
    blocker_token(&b.blocker)
}
