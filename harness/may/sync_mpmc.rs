// harnesses for src/sync_mpmc (child module, cfg(kani) only)
