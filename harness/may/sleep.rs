// harnesses for src/sleep (child module, cfg(kani) only)
