// C06 / C07 (mpsc channel, thread receiver): harnesses over the real src/sync/mpsc.rs.
// Child module of src/sync/mpsc.rs (cfg(kani) only).
// Real code: InnerQueue::{new, send, recv, try_recv, drop_chan}, AtomicOption (to_wake).
// Models: the message queue (may_queue::mpsc, decided in C03) = FIFO; Blocker::{park, unpark} =
// one wake token (ThreadPark flavour: is_coroutine() = false); crossbeam AtomicCell = one cell.
use super::*;
use crate::verif_shim::{np, rt, sa};
use std::panic as stdpanic;

static mut Q: *const InnerQueue<u8> = std::ptr::null();
static mut S_PC: usize = 0; // sender program: send(1), send(2), drop_chan
static mut S_SENDS: usize = 2;
static mut SENT_DONE: u8 = 0;
static mut DROP_DONE: bool = false;
static mut IN_S: bool = false;
static mut RECEIVED: u8 = 0;
static mut ROOT_PARKED: bool = false;
static mut QTAB: [u8; 4] = [0; 4];
static mut QH: usize = 0;
static mut QT: usize = 0;

fn is_coroutine_false() -> bool {
    false
}
fn q_push<T>(_q: &Queue<T>, v: T) {
    np::point();
    assert!(std::mem::size_of::<T>() == 1);
    unsafe {
        assert!(QT < 4);
        QTAB[QT] = std::mem::transmute_copy::<T, u8>(&v);
        QT += 1;
    }
    std::mem::forget(v);
}
fn q_pop<T>(_q: &Queue<T>) -> Option<T> {
    np::point();
    unsafe {
        if QH == QT {
            None
        } else {
            let r = std::mem::transmute_copy::<u8, T>(&QTAB[QH]);
            QH += 1;
            Some(r)
        }
    }
}
fn s_left() -> bool {
    unsafe { S_PC <= S_SENDS }
}
fn run_s() {
    unsafe {
        IN_S = true;
        if S_PC < S_SENDS {
            let v = (S_PC + 1) as u8;
            S_PC += 1;
            assert!((*Q).send(v).is_ok(), "C07: send failed although the receiver is alive");
            SENT_DONE += 1;
        } else {
            S_PC += 1;
            (*Q).drop_chan();
            DROP_DONE = true;
        }
        IN_S = false;
    }
}
fn hook() {
    unsafe {
        if np::DEPTH == 0 && !IN_S && s_left() && kani::any() {
            np::nested(run_s);
        }
    }
}
fn unpark_model(b: &Blocker) {
    np::point();
    unsafe { *crate::sync::blocking::verif_kani::blocker_token(b) = 1 };
}
fn park_model(b: &Blocker, _timeout: Option<Duration>) -> Result<(), crate::park::ParkError> {
    np::point();
    let tok = crate::sync::blocking::verif_kani::blocker_token(b);
    unsafe {
        if *tok != 0 {
            *tok = 0;
            return Ok(());
        }
        ROOT_PARKED = true;
        let mut i = 0;
        while *tok == 0 && s_left() && i < 3 {
            run_s();
            i += 1;
        }
        if *tok == 0 {
            assert!(SENT_DONE == RECEIVED, "C06: receiver stays parked for ever although a sent value is queued (lost wake-up)");
            assert!(!DROP_DONE, "C07: receiver stays parked for ever after the last sender was dropped");
            kani::assume(false);
        }
        *tok = 0;
        Ok(())
    }
}

#[kani::proof]
#[kani::unwind(4)]
#[kani::stub(core::sync::atomic::Atomic::<bool>::load, sa::bool_load)]
#[kani::stub(core::sync::atomic::Atomic::<usize>::load, sa::usize_load)]
#[kani::stub(core::sync::atomic::Atomic::<usize>::fetch_sub, sa::usize_fetch_sub)]
#[kani::stub(crossbeam::atomic::AtomicCell::swap, rt::cell_swap)]
#[kani::stub(crossbeam::atomic::AtomicCell::store, rt::cell_store)]
#[kani::stub(crossbeam::atomic::AtomicCell::take, rt::cell_take)]
#[kani::stub(may_queue::mpsc::Queue::push, q_push)]
#[kani::stub(may_queue::mpsc::Queue::pop, q_pop)]
#[kani::stub(crate::sync::blocking::Blocker::park, park_model)]
#[kani::stub(crate::sync::blocking::Blocker::unpark, unpark_model)]
#[kani::stub(crate::coroutine_impl::is_coroutine, is_coroutine_false)]
#[kani::stub(std::thread::panicking, np::panicking_stub)]
#[kani::stub(stdpanic::catch_unwind, rt::catch_unwind_stub)]
#[kani::stub(stdpanic::take_hook, rt::take_hook_stub)]
#[kani::stub(stdpanic::set_hook, rt::set_hook_stub)]
#[kani::stub(std::sync::Arc::drop_slow, rt::arc_drop_slow_stub)]
fn c06_mpsc_thread_recv_vs_sends_and_drop_d1() {
    let q: &'static InnerQueue<u8> = Box::leak(Box::new(InnerQueue::new()));
    let n: usize = kani::any();
    kani::assume(n <= 2);
    unsafe {
        Q = q;
        S_SENDS = n;
        np::HOOK = Some(hook);
    }
    // the receiver calls recv until Disconnected (at most n + 2 calls: Empty can follow a wake-up)
    let mut i = 0;
    let mut disconnected = false;
    while i < 4 && !disconnected {
        match q.recv(None) {
            Ok(v) => unsafe {
                assert!(v == RECEIVED + 1, "C06: value received out of order, twice, or never sent");
                assert!((v as usize) <= S_PC, "C06: received a value whose send has not started");
                RECEIVED += 1;
            },
            Err(TryRecvError::Empty) => {}
            Err(TryRecvError::Disconnected) => unsafe {
                assert!(DROP_DONE, "C07: Disconnected reported while a sender is alive");
                assert!(RECEIVED as usize == n, "C07: Disconnected reported before the queued values were drained");
                disconnected = true;
            },
        }
        hook();
        i += 1;
    }
    unsafe {
        kani::cover!(disconnected && RECEIVED == 2 && ROOT_PARKED, "two values then Disconnected, receiver parked at least once");
        kani::cover!(disconnected && np::PREEMPTS >= 2, "sender operations landed inside recv");
    }
}

/// crate-visible access to the Blocker token for harnesses outside `crate::sync` (the module
/// `sync::blocking` is private; `sync::mpsc` is public)
pub fn blocker_token_pub(b: &Blocker) -> *mut usize {
    crate::sync::blocking::verif_kani::blocker_token(b)
}
