// harnesses for src/sync_mpsc (child module, cfg(kani) only)
