// harnesses for src/coroutine_impl (child module, cfg(kani) only)
