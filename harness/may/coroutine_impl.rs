// child module of src/coroutine_impl.rs (cfg(kani) only)
use super::*;

/// a real `Coroutine` handle (real `Park`, real `Cancel`) without spawning anything
pub fn new_handle() -> Coroutine {
    Coroutine::new(None, config().get_stack_size())
}
pub fn park_of(h: &Coroutine) -> &Park {
    &h.inner.park
}
pub fn cancel_of(h: &Coroutine) -> &Cancel {
    &h.inner.cancel
}

// ---------------------------------------------------------------------------------------------
// C01 (sequential half): spawn -> run -> join on the real Builder::spawn_impl, run_coroutine,
// Done::drop_coroutine, Join::{set_panic_data, trigger}, JoinHandle::{is_done, wait, join},
// compiled against the model generator: resume() runs the REAL closure that spawn_impl built
// (store the result, trigger the join, return the Done subscriber) - or, when the harness arms a
// panic / cancel unwind, returns None as the generator does.
// ---------------------------------------------------------------------------------------------
use crate::pool::CoroutinePool;
use std::any::Any;
use crate::verif_shim::{gen, np, rt};
use std::panic as stdpanic;

static mut POOLED: usize = 0;
static mut EXECUTIONS: usize = 0;
fn pool_get_stub(_p: &CoroutinePool) -> CoroutineImpl {
    gen::Generator::fresh()
}
fn pool_put_stub(_p: &CoroutinePool, co: CoroutineImpl) {
    unsafe { POOLED += 1 };
    std::mem::forget(co);
}
fn is_coroutine_false() -> bool {
    false
}
fn park_unreachable(_b: &crate::sync::Blocker, _t: Option<Duration>) -> Result<(), crate::park::ParkError> {
    assert!(false, "C01: join()/wait() had to block although the coroutine has finished");
    kani::assume(false);
    Ok(())
}
fn unpark_nop(_b: &crate::sync::Blocker) {}

macro_rules! spawn_harness {
    ($(#[$m:meta])* fn $name:ident() $body:block) => {
        #[kani::proof]
        $(#[$m])*
        #[kani::stub(crate::scheduler::get_scheduler, rt::get_scheduler_stub)]
        #[kani::stub(crate::pool::CoroutinePool::get, pool_get_stub)]
        #[kani::stub(crate::pool::CoroutinePool::put, pool_put_stub)]
        #[kani::stub(crate::coroutine_impl::is_coroutine, is_coroutine_false)]
        #[kani::stub(crate::sync::Blocker::park, park_unreachable)]
        #[kani::stub(crate::sync::Blocker::unpark, unpark_nop)]
        #[kani::stub(std::io::_eprint, rt::print_stub)]
        #[kani::stub(std::io::_print, rt::print_stub)]
        #[kani::stub(stdpanic::catch_unwind, rt::catch_unwind_stub)]
        #[kani::stub(stdpanic::take_hook, rt::take_hook_stub)]
        #[kani::stub(stdpanic::set_hook, rt::set_hook_stub)]
        #[kani::stub(std::thread::panicking, np::panicking_stub)]
        #[kani::stub(std::sync::Arc::drop_slow, rt::arc_drop_slow_stub)]
        fn $name() $body
    };
}

/// the closure returns: executed exactly once, join() returns exactly its value, is_done()/wait()
/// never report completion before the closure has run
spawn_harness! {
    #[kani::unwind(3)]
    fn c01_spawn_run_join_value() {
        rt::install_scheduler();
        let v: u8 = kani::any();
        let (co, handle) = match Builder::new().spawn_impl(move || {
            unsafe { EXECUTIONS += 1 };
            v
        }) {
            Ok(x) => x,
            Err(e) => {
                std::mem::forget(e);
                kani::assume(false);
                unreachable!()
            }
        };
        let (co, handle) = match (co, handle) {
            x => x,
        };
        assert!(!handle.is_done(), "C01: is_done() before the coroutine ran");
        assert!(unsafe { EXECUTIONS } == 0);
        // a worker resumes it: REAL run_coroutine -> model resume() -> REAL closure -> REAL Done
        run_coroutine(co);
        assert!(unsafe { EXECUTIONS } == 1, "C01: the closure was not executed exactly once");
        assert!(handle.is_done(), "C01: is_done() false after the closure finished");
        assert!(unsafe { POOLED } == 1, "C01: the finished coroutine object was not recycled exactly once");
        handle.wait();
        let r = handle.join();
        match r {
            Ok(x) => assert!(x == v, "C01: join() returned something else than the closure's value"),
            Err(e) => {
                std::mem::forget(e);
                assert!(false, "C01: join() reported a failure for a closure that returned");
            }
        }
        kani::cover!(v == 0x5a, "arbitrary value went through");
        kani::cover!(v == 0, "zero value went through");
    }
}

/// the closure panics (payload p) or is unwound by a cancel: join() returns exactly the payload,
/// or the Cancel error; the coroutine object is still recycled, the joiner is released
spawn_harness! {
    #[kani::unwind(3)]
    fn c01_spawn_run_join_panic_or_cancel() {
        rt::install_scheduler();
        let p: u8 = kani::any();
        let cancelled: bool = kani::any();
        let (co, handle) = match Builder::new().spawn_impl(move || {
            unsafe { EXECUTIONS += 1 };
            0u8
        }) {
            Ok(x) => x,
            Err(e) => {
                std::mem::forget(e);
                kani::assume(false);
                unreachable!()
            }
        };
        // arm the model generator: the closure does not return
        // (payload identity is checked through its address: `downcast_ref` needs Any::type_id, a
        // virtual call that is cut out by -Z restrict-vtable, which this harness needs to keep the
        // drop glue of the coroutine-local HashMap from fanning out)
        let mut payload_addr: *const u8 = std::ptr::null();
        if cancelled {
            co.imp().cancel_unwind = true;
        } else {
            let b: Box<dyn Any + Send> = Box::new(p);
            payload_addr = &*b as *const (dyn Any + Send) as *const u8;
            co.imp().panic = Some(b);
        }
        assert!(!handle.is_done());
        run_coroutine(co);
        assert!(handle.is_done(), "C01/C13: is_done() false after the coroutine ended by a panic");
        assert!(unsafe { POOLED } == 1);
        match handle.join() {
            Ok(_) => assert!(false, "C01: join() returned a value although the closure never returned"),
            Err(e) => {
                let got = &*e as *const (dyn Any + Send) as *const u8;
                if cancelled {
                    // no panic payload exists: join() builds the Cancel error itself
                    assert!(!got.is_null());
                } else {
                    assert!(got == payload_addr, "C01/C13: join() must return exactly the panic payload object");
                    assert!(unsafe { *got } == p, "C01/C13: panic payload altered");
                }
                std::mem::forget(e);
            }
        }
        kani::cover!(cancelled, "cancel unwind");
        kani::cover!(!cancelled && p == 7, "panic payload went through");
    }
}
