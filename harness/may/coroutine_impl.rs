// child module of src/coroutine_impl.rs (cfg(kani) only)
use super::*;

/// a real `Coroutine` handle (real `Park`, real `Cancel`) without spawning anything
pub fn new_handle() -> Coroutine {
    Coroutine::new(None, config().get_stack_size())
}
pub fn park_of(h: &Coroutine) -> &Park {
    &h.inner.park
}
pub fn cancel_of(h: &Coroutine) -> &Cancel {
    &h.inner.cancel
}
