// C02 (and the park half of C08 / C09): harnesses over the real src/park.rs.
// Child module of src/park.rs (cfg(kani) only).
//
// Real code: Park::{new, park_timeout, check_park, unpark, unpark_impl, wake_up, fast_wake_up,
// set_timeout_handle, remove_timeout_handle, delay_drop, subscribe, yield_back}, DropGuard::drop,
// yield_now::yield_with, EventSubscriber::{new, subscribe}, CancelImpl::{is_canceled, set_co,
// cancel, check_cancel, clear}, AtomicDuration::{store, take}, AtomicOption::{store, take}.
// Models: the context switch (co_yield_with), "the coroutine object is resumed"
// (run_coroutine / Scheduler::schedule record the resumption of the one coroutine token),
// the timer (an armed entry may expire at any later moment; its handler is the mirror of the
// timer thread's closure), crossbeam AtomicCell (one atomic cell).
use super::*;
use crate::scheduler::Scheduler;
use crate::verif_shim::{gen, np, rt, sa};
use std::panic as stdpanic;

type TD = Arc<AtomicOption<CoroutineImpl>>;
const CO: usize = 0; // number of the one coroutine of these harnesses

static mut PARK: *const Park = std::ptr::null();
static mut CANCEL: *const Cancel = std::ptr::null();
static mut CO_RAW: usize = 0;
static mut MAXD: usize = 1;

// actors besides the parker
static mut U_LEFT: usize = 0; // unpark() calls not started yet
static mut U_STARTED: usize = 0;
static mut U_SINCE_RETURN: usize = 0; // unpark() calls started since the previous park returned
static mut X_LEFT: bool = false; // a cancel() not started yet
static mut X_STARTED: bool = false;
// timer model: at most one armed entry at a time (one park arms at most one)
static mut T_DATA: Option<TD> = None; // armed and not yet expired / removed
static mut T_FIRED: usize = 0;
static mut T_ARMED_TOTAL: usize = 0;
static mut IN_SUBSCRIBE: bool = false;
static mut ARM_WINDOW: bool = false; // between add_timer and the return of subscribe (finding F2)
static mut EXCLUDE_F2: bool = true;
// the parker
static mut SUSPENDED: bool = false;
static mut RESUMED: usize = 0;
static mut SUSPENDS: usize = 0;
static mut DIVERGED: bool = false;

fn run_u() {
    unsafe {
        U_LEFT -= 1;
        U_STARTED += 1;
        U_SINCE_RETURN += 1;
        np::nested(|| (*PARK).unpark());
    }
}
fn run_x() {
    unsafe {
        X_LEFT = false;
        X_STARTED = true;
        np::nested(|| (*CANCEL).cancel());
    }
}
/// model-level peek at the registration slot (no schedule point)
fn wait_co_empty() -> bool {
    np::quiet(|| unsafe {
        let w = &(*PARK).wait_co;
        match w.take() {
            Some(c) => {
                w.store(c);
                false
            }
            None => true,
        }
    })
}
/// An armed entry may expire at any moment - except, in the main harnesses, inside the window of
/// known finding F2, delimited by harness-observable events: the timer is armed, `subscribe` has
/// not returned and the coroutine has not been published in the registration slot yet.
fn timer_may_fire() -> bool {
    unsafe { T_DATA.is_some() && !(EXCLUDE_F2 && ARM_WINDOW && wait_co_empty()) }
}
/// the armed entry expires: the timer thread pops it and runs its handler
fn run_t() {
    unsafe {
        let c = T_DATA.take().unwrap();
        T_FIRED += 1;
        np::nested(|| crate::scheduler::verif_kani::timer_event_handler(c));
    }
}
fn hook() {
    unsafe {
        if np::DEPTH < MAXD {
            if U_LEFT > 0 && kani::any() {
                run_u();
            }
            if np::DEPTH < MAXD && timer_may_fire() && kani::any() {
                run_t();
            }
            if np::DEPTH < MAXD && X_LEFT && kani::any() {
                run_x();
            }
        }
    }
}

/// "this coroutine object is made runnable": must be the suspended parker, exactly once
fn resumed(co: CoroutineImpl) {
    let raw = co.into_raw() as usize;
    unsafe {
        assert!(raw == CO_RAW, "C02: a coroutine object other than the parked one was resumed");
        assert!(SUSPENDED, "C01/C02: coroutine resumed while it is not suspended (two residencies)");
        assert!(RESUMED == 0, "C02: coroutine resumed twice for one suspension");
        RESUMED += 1;
    }
}
fn schedule_stub(_s: &Scheduler, co: CoroutineImpl) {
    resumed(co)
}
fn run_coroutine_stub(co: CoroutineImpl) {
    resumed(co)
}
fn co_cancel_data_stub(_co: &CoroutineImpl) -> &'static Cancel {
    unsafe { &*CANCEL }
}
fn current_cancel_data_stub() -> &'static Cancel {
    unsafe { &*CANCEL }
}
fn add_timer_stub(_s: &Scheduler, _d: Duration, co: TD) -> TimeoutHandle<TD> {
    np::point();
    unsafe {
        assert!(T_DATA.is_none(), "model: second timer armed while one is pending");
        T_ARMED_TOTAL += 1;
        T_DATA = Some(co.clone());
        if IN_SUBSCRIBE {
            ARM_WINDOW = true;
        }
        np::quiet(|| (*rt_tq()).push(crate::timeout_list::verif_kani::mk_timeout_data(0, co)).0)
    }
}
/// del_timer: the timer thread removes the entry (the model removes it at once; that an entry
/// which cannot be unlinked fires later as a stale timer is covered by `stale` below)
fn del_timer_stub(_s: &Scheduler, h: TimeoutHandle<TD>) {
    np::point();
    unsafe {
        if !STALE_POSSIBLE || kani::any() {
            T_DATA = None;
        }
    }
    std::mem::forget(h);
}
static mut STALE_POSSIBLE: bool = false;
static mut TQ: *const may_queue::mpsc_list_v1::Queue<crate::timeout_list::TimeoutData<TD>> = std::ptr::null();
fn rt_tq() -> *const may_queue::mpsc_list_v1::Queue<crate::timeout_list::TimeoutData<TD>> {
    unsafe { TQ }
}

/// The context switch.  The worker runs `subscribe(co)` after the switch; the coroutine then
/// stays suspended until somebody resumes the coroutine object.
fn co_yield_with_stub<T: std::any::Any>(v: T) {
    let b: Box<dyn std::any::Any> = Box::new(v);
    let es = *b.downcast::<crate::coroutine_impl::EventSubscriber>().unwrap();
    let co = unsafe { CoroutineImpl::from_raw(CO_RAW as *mut usize) };
    unsafe {
        SUSPENDED = true;
        RESUMED = 0;
        SUSPENDS += 1;
        IN_SUBSCRIBE = true;
    }
    es.subscribe(co);
    unsafe {
        IN_SUBSCRIBE = false;
        ARM_WINDOW = false;
    }
    // suspended: everybody who is left acts now, in a solver-chosen order, each with its own
    // schedule points (a blocked frame is inert, so this does not count as nesting)
    unsafe {
        let mut i = 0;
        while RESUMED == 0 && i < 4 {
            if U_LEFT > 0 && (kani::any() || !(timer_may_fire() || X_LEFT)) {
                run_u();
            } else if timer_may_fire() && (kani::any() || !X_LEFT) {
                run_t();
            } else if X_LEFT {
                run_x();
            } else {
                break;
            }
            i += 1;
        }
        if RESUMED == 0 {
            // nobody is left who could resume the coroutine: it is suspended for ever.  That is a
            // violation iff the property obliges someone to wake it.
            assert!(U_SINCE_RETURN == 0, "C02: lost wake-up: unpark() was called after the previous park returned, yet the coroutine stays parked for ever");
            assert!(T_ARMED_NOW == 0, "C08: lost time-out: a timed park stays parked for ever");
            assert!(!X_STARTED, "C09: a cancelled coroutine stays parked for ever");
            kani::assume(false);
        }
        SUSPENDED = false;
    }
}
static mut T_ARMED_NOW: usize = 0; // timed parks in progress (0/1)

fn cancel_panic_stub() -> ! {
    unsafe {
        assert!(X_STARTED, "C09: cancel panic raised in a coroutine that was never cancelled");
        DIVERGED = true;
        kani::cover!(true, "cancelled coroutine reached the cancel panic");
    }
    kani::assume(false);
    unreachable!()
}

macro_rules! park_harness {
    ($(#[$m:meta])* fn $name:ident() $body:block) => {
        #[kani::proof]
        $(#[$m])*
        #[kani::stub(core::sync::atomic::Atomic::<bool>::swap, sa::bool_swap)]
        #[kani::stub(core::sync::atomic::Atomic::<bool>::load, sa::bool_load)]
        #[kani::stub(core::sync::atomic::Atomic::<bool>::store, sa::bool_store)]
        #[kani::stub(core::sync::atomic::Atomic::<usize>::swap, sa::usize_swap)]
        #[kani::stub(core::sync::atomic::Atomic::<usize>::load, sa::usize_load)]
        #[kani::stub(core::sync::atomic::Atomic::<usize>::fetch_or, sa::usize_fetch_or)]
        #[kani::stub(crossbeam::atomic::AtomicCell::swap, rt::cell_swap)]
        #[kani::stub(crossbeam::atomic::AtomicCell::store, rt::cell_store)]
        #[kani::stub(crossbeam::atomic::AtomicCell::take, rt::cell_take)]
        #[kani::stub(crate::scheduler::get_scheduler, rt::get_scheduler_stub)]
        #[kani::stub(crate::scheduler::Scheduler::schedule, schedule_stub)]
        #[kani::stub(crate::scheduler::Scheduler::add_timer, add_timer_stub)]
        #[kani::stub(crate::scheduler::Scheduler::del_timer, del_timer_stub)]
        #[kani::stub(crate::coroutine_impl::run_coroutine, run_coroutine_stub)]
        #[kani::stub(crate::coroutine_impl::co_cancel_data, co_cancel_data_stub)]
        #[kani::stub(crate::coroutine_impl::current_cancel_data, current_cancel_data_stub)]
        #[kani::stub(crate::yield_now::get_co_para, rt::get_co_para_stub)]
        #[kani::stub(crate::yield_now::yield_now, rt::yield_now_unreachable)]
        #[kani::stub(generator::co_yield_with, co_yield_with_stub)]
        #[kani::stub(generator::co_set_para, rt::co_set_para_stub)]
        #[kani::stub(crate::cancel::trigger_cancel_panic, cancel_panic_stub)]
        #[kani::stub(<crate::io::sys::cancel::CancelIoImpl as crate::cancel::CancelIo>::cancel, crate::io::sys::cancel::verif_kani::io_cancel_none)]
        #[kani::stub(<crate::io::sys::cancel::CancelIoImpl as crate::cancel::CancelIo>::clear, crate::io::sys::cancel::verif_kani::io_clear_none)]
        #[kani::stub(stdpanic::catch_unwind, rt::catch_unwind_stub)]
        #[kani::stub(stdpanic::take_hook, rt::take_hook_stub)]
        #[kani::stub(stdpanic::set_hook, rt::set_hook_stub)]
        #[kani::stub(std::thread::panicking, np::panicking_stub)]
        #[kani::stub(std::sync::Arc::drop_slow, rt::arc_drop_slow_stub)]
        #[kani::stub(<core::io::CustomOwner as core::ops::Drop>::drop, rt::custom_owner_drop_stub)]
        #[kani::stub(std::io::ErrorKind::from_prim, rt::from_prim_unreachable)]
        fn $name() $body
    };
}

fn setup(depth: usize) -> (&'static Park, &'static Cancel) {
    let park: &'static Park = Box::leak(Box::new(Park::new()));
    let cancel: &'static Cancel = Box::leak(Box::new(Cancel::new()));
    rt::install_scheduler();
    let co: CoroutineImpl = gen::Generator::fresh();
    unsafe {
        gen::SOLE = CO;
        rt::CUR_CO = CO;
        CO_RAW = co.into_raw() as usize;
        PARK = park;
        CANCEL = cancel;
        MAXD = depth;
        TQ = Box::into_raw(Box::new(may_queue::mpsc_list_v1::Queue::new()));
        np::HOOK = Some(hook);
    }
    (park, cancel)
}

/// one park call by the parker, with the bookkeeping the oracles need
fn do_park(park: &Park, dur: Option<Duration>) -> Result<(), ParkError> {
    unsafe {
        T_ARMED_NOW = if dur.is_some() { 1 } else { 0 };
    }
    let fired_before = unsafe { T_FIRED };
    let r = park.park_timeout(dur);
    unsafe {
        // ---- per-call oracle (fresh-Blocker strictness is added by the callers) ----
        if r == Err(ParkError::Timeout) {
            assert!(T_FIRED > 0, "C02/C08: Timeout reported although no timer ever expired");
        }
        if r == Err(ParkError::Canceled) {
            assert!(X_STARTED, "C02/C09: Canceled reported for a coroutine that was never cancelled");
        }
        let _ = fired_before;
        U_SINCE_RETURN = 0;
        T_ARMED_NOW = 0;
    }
    r
}

/// C02: two consecutive untimed parks on one Park against up to two unparkers (no timer, no
/// cancel).  Never lost, never resumed twice, token not duplicated, always Ok.
fn park_unpark(depth: usize) {
    let (park, _c) = setup(depth);
    let n: usize = kani::any();
    kani::assume(n >= 1 && n <= 2);
    unsafe { U_LEFT = n };
    let r1 = do_park(park, None);
    assert!(r1.is_ok(), "C02: untimed park of an uncancelled coroutine must return Ok");
    assert!(unsafe { U_STARTED } >= 1, "C02: a fresh park returned although nobody called unpark");
    let s1 = unsafe { SUSPENDS };
    // a pre-emption point between the two parks
    hook();
    let started_before_2 = unsafe { U_STARTED };
    let r2 = do_park(park, None);
    assert!(r2.is_ok());
    unsafe {
        // token not duplicated: two parks returned, so two unparks were issued
        assert!(U_STARTED == 2, "C02: one unpark satisfied two parks (token duplicated)");
        kani::cover!(s1 == 1 && np::PREEMPTS > 0, "park 1 suspended, unpark landed inside park_timeout/subscribe");
        kani::cover!(s1 == 0, "park 1 found the token (unpark before park)");
        kani::cover!(SUSPENDS == s1 && started_before_2 == 2, "park 2 returned at once on a token left by an earlier unpark");
        kani::cover!(SUSPENDS == s1 + 1, "park 2 suspended and was resumed");
    }
}
park_harness! {
    #[kani::unwind(5)]
    fn c02_park_unpark_d1() { park_unpark(1) }
}
park_harness! {
    #[kani::unwind(5)]
    fn c02_park_unpark_d2() { park_unpark(2) }
}

/// C02/C08: one park on a fresh Park (what every Blocker does), timed or not, against an optional
/// unparker and the timer.  Never parked for ever, resumed exactly once, Timeout only if the
/// timer really expired, Ok only if somebody unparked.
fn fresh_park_timer(depth: usize, exclude_f2: bool) {
    let (park, _c) = setup(depth);
    let timed: bool = kani::any();
    unsafe {
        EXCLUDE_F2 = exclude_f2;
        U_LEFT = if kani::any() { 1 } else { 0 };
        kani::assume(timed || U_LEFT > 0);
    }
    let r = do_park(park, if timed { Some(Duration::from_millis(3)) } else { None });
    unsafe {
        assert!(r != Err(ParkError::Canceled));
        if r == Err(ParkError::Timeout) {
            assert!(timed, "C02: Timeout from an untimed park");
        }
        if r.is_ok() {
            assert!(U_STARTED > 0, "C02: fresh park returned Ok although nobody called unpark");
        }
        kani::cover!(r == Err(ParkError::Timeout), "timed park returned Timeout");
        kani::cover!(r.is_ok() && timed && SUSPENDS == 1, "timed park suspended and was woken by unpark");
        kani::cover!(r.is_ok() && timed && SUSPENDS == 1 && T_FIRED == 0 && T_DATA.is_none(), "timer removed after an early wake-up");
    }
}
park_harness! {
    #[kani::unwind(5)]
    fn c02_fresh_park_timer_d1() { fresh_park_timer(1, true) }
}
park_harness! {
    #[kani::unwind(5)]
    fn c02_fresh_park_timer_d2() { fresh_park_timer(2, true) }
}
// witness harness of known finding F2 (expected to be refuted): identical, but the timer may
// expire between `add_timer` and the end of `subscribe`
park_harness! {
    #[kani::unwind(5)]
    fn c08_f2_witness_timer_expires_before_publish() { fresh_park_timer(1, false) }
}

/// C09 (park): a cancel issued at any point of a park (before, during registration, while parked,
/// racing with an unpark).  The parker is resumed exactly once and never left parked; with
/// cancel checking on (coroutine::park, Blocker::current) it reaches the cancel panic unless the
/// wake-up won; with `ignore_cancel` (SyncBlocker) it gets Err(Canceled) or Ok, never a panic.
fn park_cancel(depth: usize) {
    let (park, _c) = setup(depth);
    let ignore: bool = kani::any();
    park.ignore_cancel(ignore);
    unsafe {
        X_LEFT = true;
        U_LEFT = if kani::any() { 1 } else { 0 };
    }
    let r = do_park(park, None);
    unsafe {
        if r == Err(ParkError::Canceled) {
            assert!(ignore, "C09: Err(Canceled) returned although this park re-raises cancellation itself");
        }
        if r.is_ok() {
            assert!(U_STARTED > 0, "C09: park returned Ok without unpark");
        }
        kani::cover!(r == Err(ParkError::Canceled), "ignore_cancel park returned Canceled");
        kani::cover!(r.is_ok() && X_STARTED, "wake-up won the race against cancel");
    }
}
park_harness! {
    #[kani::unwind(5)]
    fn c09_park_cancel_d1() { park_cancel(1) }
}
park_harness! {
    #[kani::unwind(5)]
    fn c09_park_cancel_d2() { park_cancel(2) }
}

fn park_cancel_v(depth: usize, ignore: bool, with_u: bool) {
    let (park, _c) = setup(depth);
    unsafe { rt::NO_DECODE = true; }
    park.ignore_cancel(ignore);
    unsafe {
        X_LEFT = true;
        U_LEFT = if with_u { 1 } else { 0 };
    }
    let r = do_park(park, None);
    assert!(r.is_ok() || r == Err(ParkError::Canceled));
}
park_harness! {
    #[kani::unwind(5)]
    fn exp_cancel_ign_nou() { park_cancel_v(1, true, false) }
}
park_harness! {
    #[kani::unwind(5)]
    fn exp_cancel_noign_nou() { park_cancel_v(1, false, false) }
}
park_harness! {
    #[kani::unwind(5)]
    fn exp_cancel_ign_u() { park_cancel_v(1, true, true) }
}
