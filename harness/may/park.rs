// harnesses for src/park (child module, cfg(kani) only)
