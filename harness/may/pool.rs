// harnesses for src/pool (child module, cfg(kani) only)
