// C10 (SyncFlag half): harnesses over the real src/sync/sync_flag.rs + SyncBlocker.
// Child module of src/sync/sync_flag.rs (cfg(kani) only).
// Real code: SyncFlag::{new, wait, wait_timeout, wait_timeout_impl, fire, is_fired, wakeup_all}.
// Models: waiter queue (crossbeam SegQueue) = FIFO; Blocker::{park, unpark} = one wake token,
// a timed park may give up at any moment.
use super::*;
use crate::sync::blocking::Blocker;
use crate::verif_shim::{np, rt, sa};
use std::panic as stdpanic;

static mut F: *const SyncFlag = std::ptr::null();
static mut FIRE_LEFT: bool = false;
static mut FIRE_DONE: bool = false;
static mut TIMED_OUT: bool = false;
static mut ROOT_PARKED: bool = false;
static mut QTAB: [u64; 4] = [0; 4];
static mut QH: usize = 0;
static mut QT: usize = 0;

fn is_coroutine_false() -> bool {
    false
}
fn q_push<T>(_q: &SegQueue<T>, v: T) {
    np::point();
    assert!(std::mem::size_of::<T>() == 8);
    unsafe {
        assert!(QT < 4);
        QTAB[QT] = std::mem::transmute_copy::<T, u64>(&v);
        QT += 1;
    }
    std::mem::forget(v);
}
fn q_pop<T>(_q: &SegQueue<T>) -> Option<T> {
    np::point();
    unsafe {
        if QH == QT {
            None
        } else {
            let r = std::mem::transmute_copy::<u64, T>(&QTAB[QH]);
            QH += 1;
            Some(r)
        }
    }
}
fn run_fire() {
    unsafe {
        FIRE_LEFT = false;
        (*F).fire();
        FIRE_DONE = true;
    }
}
fn hook() {
    unsafe {
        if np::DEPTH == 0 && FIRE_LEFT && kani::any() {
            np::nested(run_fire);
        }
    }
}
fn unpark_model(b: &Blocker) {
    np::point();
    unsafe { *crate::sync::blocking::verif_kani::blocker_token(b) = 1 };
}
fn park_model(b: &Blocker, timeout: Option<Duration>) -> Result<(), ParkError> {
    np::point();
    let tok = crate::sync::blocking::verif_kani::blocker_token(b);
    unsafe {
        if *tok != 0 {
            *tok = 0;
            return Ok(());
        }
        if timeout.is_some() && kani::any() {
            TIMED_OUT = true;
            return Err(ParkError::Timeout);
        }
        ROOT_PARKED = true;
        if FIRE_LEFT {
            run_fire();
        }
        if *tok != 0 {
            *tok = 0;
            return Ok(());
        }
        if timeout.is_some() {
            TIMED_OUT = true;
            return Err(ParkError::Timeout);
        }
        assert!(!FIRE_DONE, "C10: a waiter stays parked for ever although the flag has been fired");
        kani::assume(false);
        Ok(())
    }
}

#[kani::proof]
#[kani::unwind(3)]
#[kani::stub(core::sync::atomic::Atomic::<isize>::fetch_sub, sa::isize_fetch_sub)]
#[kani::stub(core::sync::atomic::Atomic::<isize>::load, sa::isize_load)]
#[kani::stub(core::sync::atomic::Atomic::<isize>::store, sa::isize_store)]
#[kani::stub(core::sync::atomic::Atomic::<bool>::load, sa::bool_load)]
#[kani::stub(core::sync::atomic::Atomic::<bool>::store, sa::bool_store)]
#[kani::stub(core::sync::atomic::Atomic::<bool>::swap, sa::bool_swap)]
#[kani::stub(crossbeam::queue::SegQueue::push, q_push)]
#[kani::stub(crossbeam::queue::SegQueue::pop, q_pop)]
#[kani::stub(crate::sync::blocking::Blocker::park, park_model)]
#[kani::stub(crate::sync::blocking::Blocker::unpark, unpark_model)]
#[kani::stub(crate::coroutine_impl::is_coroutine, is_coroutine_false)]
#[kani::stub(std::thread::panicking, np::panicking_stub)]
#[kani::stub(stdpanic::catch_unwind, rt::catch_unwind_stub)]
#[kani::stub(stdpanic::take_hook, rt::take_hook_stub)]
#[kani::stub(stdpanic::set_hook, rt::set_hook_stub)]
#[kani::stub(std::sync::Arc::drop_slow, rt::arc_drop_slow_stub)]
fn c10_syncflag_waiter_vs_fire_d1() {
    let f: &'static SyncFlag = Box::leak(Box::new(SyncFlag::new()));
    let timed: bool = kani::any();
    unsafe {
        F = f;
        FIRE_LEFT = true;
        np::HOOK = Some(hook);
    }
    assert!(!f.is_fired() || unsafe { FIRE_DONE || !FIRE_LEFT });
    let ok = if timed {
        f.wait_timeout(Duration::from_millis(5))
    } else {
        f.wait();
        true
    };
    unsafe {
        np::HOOK = None;
        if !ok {
            assert!(timed && TIMED_OUT, "C10: wait gave up without a time-out");
        } else {
            assert!(!FIRE_LEFT, "C10: wait returned true although nobody fired the flag");
        }
        kani::cover!(ok && ROOT_PARKED, "waiter parked and was woken by fire");
        kani::cover!(!ok && np::PREEMPTS > 0, "time-out raced with fire");
        if FIRE_LEFT {
            run_fire();
        }
        // one-way latch: fired for ever, every later wait returns true at once
        assert!(f.is_fired(), "C10: flag reads un-fired after fire()");
        assert!(f.wait_timeout(Duration::from_millis(1)), "C10: wait after fire did not succeed");
        f.wait();
        assert!(f.is_fired(), "C10: flag reads un-fired again after waits");
    }
}
