// harnesses for src/sync_sync_flag (child module, cfg(kani) only)
