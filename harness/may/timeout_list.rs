// harnesses for src/timeout_list (child module, cfg(kani) only)
