// child module of src/timeout_list.rs (cfg(kani) only)
use super::*;

/// construct a list entry (field `time` is private to timeout_list.rs)
pub fn mk_timeout_data<T>(time: u64, data: T) -> TimeoutData<T> {
    TimeoutData { time, data }
}
