// Faithful copy of std's panic=unwind definitions (std/src/sync/poison.rs); Kani's libstd is built
// with panic=abort, where PoisonError<T> carries a `!` field and is uninhabited.
pub struct PoisonError<T> { data: T }
pub enum TryLockError<T> { Poisoned(PoisonError<T>), WouldBlock }
pub type LockResult<T> = Result<T, PoisonError<T>>;
pub type TryLockResult<T> = Result<T, TryLockError<T>>;
impl<T> PoisonError<T> {
    pub fn new(data: T) -> PoisonError<T> { PoisonError { data } }
    pub fn into_inner(self) -> T { self.data }
    pub fn get_ref(&self) -> &T { &self.data }
    pub fn get_mut(&mut self) -> &mut T { &mut self.data }
}
impl<T> From<PoisonError<T>> for TryLockError<T> {
    fn from(err: PoisonError<T>) -> TryLockError<T> { TryLockError::Poisoned(err) }
}
impl<T> std::fmt::Debug for PoisonError<T> {
    fn fmt(&self, f: &mut std::fmt::Formatter<'_>) -> std::fmt::Result { f.write_str("PoisonError") }
}
impl<T> std::fmt::Debug for TryLockError<T> {
    fn fmt(&self, f: &mut std::fmt::Formatter<'_>) -> std::fmt::Result { f.write_str("TryLockError") }
}
