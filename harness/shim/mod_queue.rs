// Mounted in /repo/may_queue/src/lib.rs as `crate::verif_shim` under cfg(kani) only.
#![allow(dead_code, static_mut_refs, unused_imports, unused_variables, clippy::all)]
pub mod np;
pub mod sa;
