//! Stubs for std atomics: a schedule point, then the effect on the real memory location (SC).
//! Used as `#[kani::stub(core::sync::atomic::Atomic::<usize>::load, crate::verif_shim::sa::usize_load)]`.
use super::np::point_at;
use core::sync::atomic::*;

pub fn bool_load(a: &AtomicBool, _o: Ordering) -> bool { point_at(a.as_ptr() as *const u8); unsafe { *a.as_ptr() } }
pub fn bool_store(a: &AtomicBool, v: bool, _o: Ordering) { point_at(a.as_ptr() as *const u8); unsafe { *a.as_ptr() = v; } }
pub fn bool_swap(a: &AtomicBool, v: bool, _o: Ordering) -> bool { point_at(a.as_ptr() as *const u8); unsafe { let p = a.as_ptr(); let old = *p; *p = v; old } }
pub fn bool_cas(a: &AtomicBool, cur: bool, new: bool, _s: Ordering, _f: Ordering) -> Result<bool, bool> {
    point_at(a.as_ptr() as *const u8); unsafe { let p = a.as_ptr(); let old = *p; if old == cur { *p = new; Ok(old) } else { Err(old) } }
}
pub fn bool_fetch_or(a: &AtomicBool, v: bool, _o: Ordering) -> bool { point_at(a.as_ptr() as *const u8); unsafe { let p = a.as_ptr(); let old = *p; *p = old | v; old } }
pub fn bool_fetch_and(a: &AtomicBool, v: bool, _o: Ordering) -> bool { point_at(a.as_ptr() as *const u8); unsafe { let p = a.as_ptr(); let old = *p; *p = old & v; old } }

pub fn usize_load(a: &AtomicUsize, _o: Ordering) -> usize { point_at(a.as_ptr() as *const u8); unsafe { *a.as_ptr() } }
pub fn usize_store(a: &AtomicUsize, v: usize, _o: Ordering) { point_at(a.as_ptr() as *const u8); unsafe { *a.as_ptr() = v; } }
pub fn usize_swap(a: &AtomicUsize, v: usize, _o: Ordering) -> usize { point_at(a.as_ptr() as *const u8); unsafe { let p = a.as_ptr(); let old = *p; *p = v; old } }
pub fn usize_cas(a: &AtomicUsize, cur: usize, new: usize, _s: Ordering, _f: Ordering) -> Result<usize, usize> {
    point_at(a.as_ptr() as *const u8); unsafe { let p = a.as_ptr(); let old = *p; if old == cur { *p = new; Ok(old) } else { Err(old) } }
}
pub fn usize_fetch_add(a: &AtomicUsize, v: usize, _o: Ordering) -> usize { point_at(a.as_ptr() as *const u8); unsafe { let p = a.as_ptr(); let old = *p; *p = old.wrapping_add(v); old } }
pub fn usize_fetch_sub(a: &AtomicUsize, v: usize, _o: Ordering) -> usize { point_at(a.as_ptr() as *const u8); unsafe { let p = a.as_ptr(); let old = *p; *p = old.wrapping_sub(v); old } }
pub fn usize_fetch_or(a: &AtomicUsize, v: usize, _o: Ordering) -> usize { point_at(a.as_ptr() as *const u8); unsafe { let p = a.as_ptr(); let old = *p; *p = old | v; old } }
pub fn usize_fetch_and(a: &AtomicUsize, v: usize, _o: Ordering) -> usize { point_at(a.as_ptr() as *const u8); unsafe { let p = a.as_ptr(); let old = *p; *p = old & v; old } }

pub fn isize_load(a: &AtomicIsize, _o: Ordering) -> isize { point_at(a.as_ptr() as *const u8); unsafe { *a.as_ptr() } }
pub fn isize_store(a: &AtomicIsize, v: isize, _o: Ordering) { point_at(a.as_ptr() as *const u8); unsafe { *a.as_ptr() = v; } }
pub fn isize_swap(a: &AtomicIsize, v: isize, _o: Ordering) -> isize { point_at(a.as_ptr() as *const u8); unsafe { let p = a.as_ptr(); let old = *p; *p = v; old } }
pub fn isize_cas(a: &AtomicIsize, cur: isize, new: isize, _s: Ordering, _f: Ordering) -> Result<isize, isize> {
    point_at(a.as_ptr() as *const u8); unsafe { let p = a.as_ptr(); let old = *p; if old == cur { *p = new; Ok(old) } else { Err(old) } }
}
pub fn isize_fetch_add(a: &AtomicIsize, v: isize, _o: Ordering) -> isize { point_at(a.as_ptr() as *const u8); unsafe { let p = a.as_ptr(); let old = *p; *p = old.wrapping_add(v); old } }
pub fn isize_fetch_sub(a: &AtomicIsize, v: isize, _o: Ordering) -> isize { point_at(a.as_ptr() as *const u8); unsafe { let p = a.as_ptr(); let old = *p; *p = old.wrapping_sub(v); old } }
pub fn isize_fetch_or(a: &AtomicIsize, v: isize, _o: Ordering) -> isize { point_at(a.as_ptr() as *const u8); unsafe { let p = a.as_ptr(); let old = *p; *p = old | v; old } }
pub fn isize_fetch_and(a: &AtomicIsize, v: isize, _o: Ordering) -> isize { point_at(a.as_ptr() as *const u8); unsafe { let p = a.as_ptr(); let old = *p; *p = old & v; old } }

pub fn u64_load(a: &AtomicU64, _o: Ordering) -> u64 { point_at(a.as_ptr() as *const u8); unsafe { *a.as_ptr() } }
pub fn u64_store(a: &AtomicU64, v: u64, _o: Ordering) { point_at(a.as_ptr() as *const u8); unsafe { *a.as_ptr() = v; } }
pub fn u64_swap(a: &AtomicU64, v: u64, _o: Ordering) -> u64 { point_at(a.as_ptr() as *const u8); unsafe { let p = a.as_ptr(); let old = *p; *p = v; old } }
pub fn u64_cas(a: &AtomicU64, cur: u64, new: u64, _s: Ordering, _f: Ordering) -> Result<u64, u64> {
    point_at(a.as_ptr() as *const u8); unsafe { let p = a.as_ptr(); let old = *p; if old == cur { *p = new; Ok(old) } else { Err(old) } }
}
pub fn u64_fetch_add(a: &AtomicU64, v: u64, _o: Ordering) -> u64 { point_at(a.as_ptr() as *const u8); unsafe { let p = a.as_ptr(); let old = *p; *p = old.wrapping_add(v); old } }
pub fn u64_fetch_sub(a: &AtomicU64, v: u64, _o: Ordering) -> u64 { point_at(a.as_ptr() as *const u8); unsafe { let p = a.as_ptr(); let old = *p; *p = old.wrapping_sub(v); old } }
pub fn u64_fetch_or(a: &AtomicU64, v: u64, _o: Ordering) -> u64 { point_at(a.as_ptr() as *const u8); unsafe { let p = a.as_ptr(); let old = *p; *p = old | v; old } }
pub fn u64_fetch_and(a: &AtomicU64, v: u64, _o: Ordering) -> u64 { point_at(a.as_ptr() as *const u8); unsafe { let p = a.as_ptr(); let old = *p; *p = old & v; old } }

pub fn u32_load(a: &AtomicU32, _o: Ordering) -> u32 { point_at(a.as_ptr() as *const u8); unsafe { *a.as_ptr() } }
pub fn u32_store(a: &AtomicU32, v: u32, _o: Ordering) { point_at(a.as_ptr() as *const u8); unsafe { *a.as_ptr() = v; } }
pub fn u32_swap(a: &AtomicU32, v: u32, _o: Ordering) -> u32 { point_at(a.as_ptr() as *const u8); unsafe { let p = a.as_ptr(); let old = *p; *p = v; old } }
pub fn u32_cas(a: &AtomicU32, cur: u32, new: u32, _s: Ordering, _f: Ordering) -> Result<u32, u32> {
    point_at(a.as_ptr() as *const u8); unsafe { let p = a.as_ptr(); let old = *p; if old == cur { *p = new; Ok(old) } else { Err(old) } }
}
pub fn u32_fetch_add(a: &AtomicU32, v: u32, _o: Ordering) -> u32 { point_at(a.as_ptr() as *const u8); unsafe { let p = a.as_ptr(); let old = *p; *p = old.wrapping_add(v); old } }
pub fn u32_fetch_sub(a: &AtomicU32, v: u32, _o: Ordering) -> u32 { point_at(a.as_ptr() as *const u8); unsafe { let p = a.as_ptr(); let old = *p; *p = old.wrapping_sub(v); old } }
pub fn u32_fetch_or(a: &AtomicU32, v: u32, _o: Ordering) -> u32 { point_at(a.as_ptr() as *const u8); unsafe { let p = a.as_ptr(); let old = *p; *p = old | v; old } }
pub fn u32_fetch_and(a: &AtomicU32, v: u32, _o: Ordering) -> u32 { point_at(a.as_ptr() as *const u8); unsafe { let p = a.as_ptr(); let old = *p; *p = old & v; old } }

pub fn ptr_load<T>(a: &AtomicPtr<T>, _o: Ordering) -> *mut T { point_at(a.as_ptr() as *const u8); unsafe { *a.as_ptr() } }
pub fn ptr_store<T>(a: &AtomicPtr<T>, v: *mut T, _o: Ordering) { point_at(a.as_ptr() as *const u8); unsafe { *a.as_ptr() = v; } }
pub fn ptr_swap<T>(a: &AtomicPtr<T>, v: *mut T, _o: Ordering) -> *mut T { point_at(a.as_ptr() as *const u8); unsafe { let p = a.as_ptr(); let old = *p; *p = v; old } }
pub fn ptr_cas<T>(a: &AtomicPtr<T>, cur: *mut T, new: *mut T, _s: Ordering, _f: Ordering) -> Result<*mut T, *mut T> {
    point_at(a.as_ptr() as *const u8); unsafe { let p = a.as_ptr(); let old = *p; if old == cur { *p = new; Ok(old) } else { Err(old) } }
}
pub fn fence_stub(_o: Ordering) {}
