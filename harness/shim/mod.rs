// Mounted in /repo/src/lib.rs as `crate::verif_shim` under cfg(kani) only.
#![allow(dead_code, static_mut_refs, unused_imports, unused_variables, clippy::all)]
pub mod poison;
pub mod gen;
pub mod np;
pub mod sa;
pub mod rt;
