//! Kani-NP: stack-disciplined pre-emption engine (DESIGN.md §2).
//!
//! Actors are numbered 0..NACT; actor `a` has NOPS[a] whole operations, executed by the
//! harness-supplied `RUN(a, pc)`.  `point()` is called by every stubbed shared-memory primitive
//! *before* it acts: the solver decides whether another actor's next whole operation runs right
//! here (nested, down to MAXD).  `block_until` is called by the blocking models.
use core::sync::atomic::Ordering;

pub const MAXA: usize = 4;
pub static mut ON: bool = false;
pub static mut DEPTH: usize = 0;
pub static mut MAXD: usize = 1;
/// how many whole operations may be inserted at one schedule point
pub static mut ROUNDS: usize = 1;
pub static mut CUR: usize = 0;
pub static mut NACT: usize = 0;
pub static mut PC: [usize; MAXA] = [0; MAXA];
pub static mut NOPS: [usize; MAXA] = [0; MAXA];
/// inside an operation (running, pre-empted or blocked)
pub static mut ACTIVE: [bool; MAXA] = [false; MAXA];
pub static mut RUN: Option<fn(usize, usize)> = None;
/// number of pre-emptions taken on this path (for reachability witnesses)
pub static mut PREEMPTS: usize = 0;
/// number of times an actor had to wait for others (blocked path taken)
pub static mut BLOCKS: usize = 0;
/// harness-controlled `thread::panicking()` per actor
pub static mut PANICKING: [bool; MAXA] = [false; MAXA];

pub fn setup(maxd: usize, rounds: usize, nops: &[usize], run: fn(usize, usize)) {
    unsafe {
        MAXD = maxd;
        ROUNDS = rounds;
        NACT = nops.len();
        let mut i = 0;
        while i < MAXA {
            NOPS[i] = if i < nops.len() { nops[i] } else { 0 };
            PC[i] = 0;
            ACTIVE[i] = false;
            i += 1;
        }
        RUN = Some(run);
        DEPTH = 0;
        ON = true;
    }
}

#[inline]
pub fn cur() -> usize {
    unsafe { CUR }
}

#[inline]
fn eligible(a: usize) -> bool {
    unsafe { a < NACT && !ACTIVE[a] && PC[a] < NOPS[a] }
}

fn any_eligible() -> bool {
    let mut a = 0;
    while a < MAXA {
        if eligible(a) {
            return true;
        }
        a += 1;
    }
    false
}

/// every actor other than the current one has finished all its operations
fn others_done() -> bool {
    unsafe {
        let mut a = 0;
        while a < MAXA {
            if a < NACT && a != CUR && (ACTIVE[a] || PC[a] < NOPS[a]) {
                return false;
            }
            a += 1;
        }
        true
    }
}

/// run the next whole operation of actor `a` on top of the current stack
pub fn run_next(a: usize) {
    unsafe {
        let pc = PC[a];
        PC[a] = pc + 1;
        ACTIVE[a] = true;
        let saved = CUR;
        CUR = a;
        (RUN.unwrap())(a, pc);
        CUR = saved;
        ACTIVE[a] = false;
    }
}

fn pick() -> usize {
    let a: usize = kani::any();
    kani::assume(eligible(a));
    a
}

/// schedule point: the solver may insert whole operations of other actors here
pub fn point() {
    unsafe {
        if !ON || DEPTH >= MAXD {
            return;
        }
        let mut r = 0;
        while r < ROUNDS {
            if !kani::any::<bool>() {
                break;
            }
            let a = pick();
            DEPTH += 1;
            PREEMPTS += 1;
            run_next(a);
            DEPTH -= 1;
            r += 1;
        }
    }
}

/// the current actor cannot continue until `cond` holds: let the others run (same nesting
/// depth: a blocked frame is inert).  If nobody can make it true the actor is stuck for ever:
/// a deadlock when every other actor has finished, otherwise a schedule outside the
/// stack-disciplined class (pruned; covered by the twin harness with the roles exchanged).
pub fn block_until<F: Fn() -> bool>(cond: F) -> bool {
    unsafe {
        if !cond() {
            BLOCKS += 1;
        }
        while !cond() {
            if !any_eligible() {
                break;
            }
            let a = pick();
            run_next(a);
        }
        if cond() {
            return true;
        }
        if others_done() {
            return false; // caller reports the deadlock with its own message
        }
        kani::assume(false);
        false
    }
}

/// one unsuccessful poll of a spin loop: somebody else has to make progress
pub fn spin() -> bool {
    unsafe {
        if any_eligible() {
            let a = pick();
            run_next(a);
            return true;
        }
        if others_done() {
            return false; // spinning on something nobody will ever write
        }
        kani::assume(false);
        false
    }
}

/// run actor `root` to completion (schedule points between and inside its operations), then
/// everything that is left, in a solver-chosen serial order.
pub fn run_all(root: usize) {
    unsafe {
        while PC[root] < NOPS[root] {
            point();
            run_next(root);
        }
        finish();
    }
}

pub fn finish() {
    while any_eligible() {
        let a = pick();
        run_next(a);
    }
}

pub fn all_done() -> bool {
    unsafe {
        let mut a = 0;
        while a < MAXA {
            if a < NACT && (ACTIVE[a] || PC[a] < NOPS[a]) {
                return false;
            }
            a += 1;
        }
        true
    }
}

pub fn panicking_stub() -> bool {
    unsafe { PANICKING[CUR] }
}
