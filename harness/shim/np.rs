//! Kani-NP, minimal core (DESIGN.md §2): every stubbed shared-memory primitive calls `point()`
//! before it acts; `point()` calls the hook installed by the harness, which asks the solver
//! whether another actor's next whole operation runs right here (nested call), down to the
//! nesting depth the harness allows.  The hook is hand-written per harness: a generic actor
//! table was measured to cost 20-50x more in CBMC (every merge point has to phi every symbol a
//! branch may touch), see probes/np_engine_v1_generic.rs.
pub static mut HOOK: Option<fn()> = None;
pub static mut DEPTH: usize = 0;
/// number of pre-emptions taken on this path (for reachability witnesses)
pub static mut PREEMPTS: usize = 0;
/// harness-controlled `std::thread::panicking()`
pub static mut PANICKING: bool = false;

#[inline(never)]
pub fn point() {
    unsafe {
        if let Some(h) = HOOK {
            h();
        }
    }
}
pub fn point_at(_addr: *const u8) {
    point();
}
/// run `f` as a pre-empting operation (one nesting level deeper)
pub fn nested<F: FnOnce()>(f: F) {
    unsafe {
        DEPTH += 1;
        PREEMPTS += 1;
        f();
        DEPTH -= 1;
    }
}
/// run model-internal code without schedule points
pub fn quiet<R, F: FnOnce() -> R>(f: F) -> R {
    unsafe {
        let h = HOOK;
        HOOK = None;
        let r = f();
        HOOK = h;
        r
    }
}
pub fn panicking_stub() -> bool {
    unsafe { PANICKING }
}
