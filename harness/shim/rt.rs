//! Runtime stubs and models shared by the `may` harnesses (DESIGN.md §3).  Everything here is a
//! model of something *below the cut* (generator context switch, scheduler queues when the
//! scheduler is not under test, std panic machinery, parking_lot slow paths, crossbeam cells).
use super::gen;
use super::np;
use crate::coroutine_impl::{CoroutineImpl, EventResult, EventSource, EventSubscriber};
use crate::scheduler::Scheduler;
use std::any::Any;
use std::mem::MaybeUninit;
use std::sync::Arc;

pub static mut SCHED: *const Scheduler = std::ptr::null();

// ---- the value a resumed actor coroutine "yields": a subscriber that does nothing ----------------
struct Noop;
impl EventSource for Noop {
    fn subscribe(&mut self, co: CoroutineImpl) {
        std::mem::forget(co);
    }
}
static mut NOOP: Noop = Noop;
pub fn noop_subscriber() -> EventSubscriber {
    unsafe { EventSubscriber::new(&mut NOOP as &mut dyn EventSource as *mut dyn EventSource) }
}
impl gen::ModelYield for EventSubscriber {
    fn noop() -> Self {
        noop_subscriber()
    }
}

// ---- the resume parameter (generator `para` slot) -------------------------------------------------
/// resume parameter of each model coroutine, as the kind the runtime reads from it
/// (0 = none, 1 = TimedOut, 2 = Other (cancel), 3 = anything else).  Kept in a static indexed by
/// the coroutine number, not in the heap cell: CBMC folds statics, not heap fields reached through
/// data-dependent pointers.
pub static mut PARA_KIND: [u8; 4] = [0; 4];
/// number of the coroutine whose code is currently executing (harness-maintained)
pub static mut CUR_CO: usize = 0;
pub static mut NO_DECODE: bool = false;
fn kind_code(e: &EventResult) -> u8 {
    match e.kind() {
        std::io::ErrorKind::TimedOut => 1,
        std::io::ErrorKind::Other => 2,
        _ => 3,
    }
}
impl gen::ModelPara for EventResult {
    fn stash(self, co: usize) {
        let k = if unsafe { NO_DECODE } { 2 } else { kind_code(&self) };
        std::mem::forget(self);
        unsafe { PARA_KIND[co] = k };
    }
    fn squash(self) -> Self {
        self
    }
}
/// zero-sized payload of the boxed errors the model hands to real code (no String allocation)
#[derive(Debug)]
pub struct ModelErr;
impl std::fmt::Display for ModelErr {
    fn fmt(&self, _f: &mut std::fmt::Formatter<'_>) -> std::fmt::Result {
        Ok(())
    }
}
impl std::error::Error for ModelErr {}
fn mk_para(k: u8) -> Option<EventResult> {
    // freshly boxed errors, as the runtime builds its TimedOut / Canceled results
    match k {
        0 => None,
        1 => Some(std::io::Error::new(std::io::ErrorKind::TimedOut, ModelErr)),
        2 => Some(std::io::Error::other(ModelErr)),
        _ => Some(std::io::Error::new(std::io::ErrorKind::InvalidData, ModelErr)),
    }
}
/// stub for `crate::yield_now::get_co_para`
pub fn get_co_para_stub() -> Option<EventResult> {
    unsafe {
        let k = PARA_KIND[CUR_CO];
        PARA_KIND[CUR_CO] = 0;
        mk_para(k)
    }
}
/// stub for `generator::co_set_para` (the generic parameter is always EventResult)
pub fn co_set_para_stub<A: Any>(v: A) {
    assert!(std::mem::size_of::<A>() == std::mem::size_of::<EventResult>());
    let e: EventResult = unsafe { std::mem::transmute_copy(&v) };
    std::mem::forget(v);
    gen::ModelPara::stash(e, unsafe { CUR_CO });
}

// ---- scheduler (when it is not the code under test) -----------------------------------------
pub fn install_scheduler() {
    let sched: Box<MaybeUninit<Scheduler>> = Box::new_uninit();
    unsafe { SCHED = Box::into_raw(sched) as *const Scheduler };
}
/// an uninitialised, never-read Scheduler allocation (every method reached on it is stubbed)
pub fn get_scheduler_stub() -> &'static Scheduler {
    unsafe { &*SCHED }
}

// ---- std / parking_lot machinery that Kani cannot compile -------------------------------------
pub fn catch_unwind_stub<F: FnOnce() -> R + std::panic::UnwindSafe, R>(f: F) -> std::thread::Result<R> {
    Ok(f())
}
pub fn take_hook_stub() -> Box<dyn Fn(&std::panic::PanicHookInfo<'_>) + 'static + Sync + Send> {
    Box::new(|_| {})
}
pub fn set_hook_stub(h: Box<dyn Fn(&std::panic::PanicHookInfo<'_>) + 'static + Sync + Send>) {
    std::mem::forget(h);
}
pub fn arc_drop_slow_stub<T: ?Sized, A: std::alloc::Allocator>(_a: &mut Arc<T, A>) {}
pub fn nop() {}
pub fn print_stub(_a: std::fmt::Arguments<'_>) {}
/// `yield_now()` inside Park is only reached while `wait_kernel` is set, i.e. while the worker is
/// still inside `subscribe` of this coroutine's previous suspension.  In the sequential model a
/// continuation never overlaps its own `subscribe`, so the call must be unreachable (asserted).
pub fn yield_now_unreachable() {
    assert!(false, "model: yield_now reached (wait_kernel set while the coroutine runs)");
    kani::assume(false);
}
/// `impl Drop for core::io::CustomOwner` frees the boxed payload of a custom io::Error through a
/// `Box<dyn Error>` virtual drop.  CBMC cannot resolve that vtable (the bit-packed repr pointer is
/// merged over several heap objects) and fans out over every drop glue of the program, which
/// costs minutes per dropped error.  The model leaks the payload instead; nothing any property
/// observes depends on it.
pub fn custom_owner_drop_stub(_c: &mut core::io::CustomOwner) {}
/// `ErrorKind::from_prim` (a 40-way match) is only called when a *kind-only* io::Error is decoded.
/// In the harnesses that use this stub every io::Error is a boxed one (`Error::new/other`, as the
/// runtime builds its TimedOut / Canceled results), so the call must be unreachable; this is
/// asserted, not assumed.
pub fn from_prim_unreachable(_x: u32) -> Option<std::io::ErrorKind> {
    assert!(false, "model: a kind-only io::Error was decoded (from_prim reached)");
    kani::assume(false);
    None
}

// ---- crossbeam AtomicCell (behind AtomicOption): modelled as one atomic cell ---------------------
// The real implementation moves the value through an AtomicU64 (pointer -> integer -> pointer),
// which CBMC cannot track precisely (every later dereference fans out over all objects).  The
// model keeps the typed value in place; each operation is one schedule point.  Old values are
// returned or forgotten, never dropped here.
use crossbeam::atomic::AtomicCell;
pub fn cell_swap<T>(c: &AtomicCell<T>, v: T) -> T {
    np::point();
    unsafe {
        let p = c.as_ptr();
        let old = std::ptr::read(p);
        std::ptr::write(p, v);
        old
    }
}
pub fn cell_store<T>(c: &AtomicCell<T>, v: T) {
    np::point();
    unsafe {
        let p = c.as_ptr();
        let old = std::ptr::read(p);
        std::ptr::write(p, v);
        std::mem::forget(old);
    }
}
pub fn cell_take<T: Default>(c: &AtomicCell<T>) -> T {
    np::point();
    unsafe {
        let p = c.as_ptr();
        let old = std::ptr::read(p);
        std::ptr::write(p, T::default());
        old
    }
}
