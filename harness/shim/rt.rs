//! Runtime stubs and models shared by the `may` harnesses (DESIGN.md §3).  Everything here is a
//! model of something *below the cut* (generator context switch, scheduler queues when the
//! scheduler is not under test, std panic machinery, parking_lot slow paths).
use super::gen::{FakeImpl, NONE};
use super::np;
use crate::coroutine_impl::{CoroutineImpl, EventResult, EventSource, EventSubscriber};
use crate::scheduler::Scheduler;
use std::any::Any;
use std::mem::MaybeUninit;
use std::sync::Arc;

pub type Cell = FakeImpl<EventResult, EventSubscriber>;

/// raw model-generator cell of each coroutine actor (null = the actor is a plain thread)
pub static mut CO: [*mut usize; np::MAXA] = [std::ptr::null_mut(); np::MAXA];
/// total number of resumptions delivered to actor coroutines (run_coroutine or schedule)
pub static mut RESUMES: [usize; np::MAXA] = [0; np::MAXA];
/// number of times an actor coroutine really suspended (context switch taken)
pub static mut SUSPENDS: [usize; np::MAXA] = [0; np::MAXA];
/// set when a suspended coroutine can never be resumed again (reported by the harness)
pub static mut STUCK: [bool; np::MAXA] = [false; np::MAXA];
pub static mut SCHED: *const Scheduler = std::ptr::null();

#[allow(clippy::mut_from_ref)]
pub fn cell(raw: *mut usize) -> &'static mut Cell {
    unsafe { &mut *(raw as *mut Cell) }
}
pub fn cur_cell() -> Option<&'static mut Cell> {
    unsafe {
        let raw = CO[np::CUR];
        if raw.is_null() {
            None
        } else {
            Some(cell(raw))
        }
    }
}

// ---- generator free functions --------------------------------------------------------------
pub fn get_local_data_stub() -> *mut u8 {
    match cur_cell() {
        Some(c) => c.local,
        None => std::ptr::null_mut(),
    }
}

struct Noop;
impl EventSource for Noop {
    fn subscribe(&mut self, co: CoroutineImpl) {
        std::mem::forget(co);
    }
}
static mut NOOP: Noop = Noop;
pub fn noop_subscriber() -> EventSubscriber {
    unsafe { EventSubscriber::new(&mut NOOP as &mut dyn EventSource as *mut dyn EventSource) }
}

/// The context switch.  The current actor coroutine hands `es` to its worker, which calls
/// `subscribe(co)` after the switch; the actor then stays suspended until somebody resumes the
/// coroutine object (model generator `resume()`, reached from the real `run_coroutine`, or the
/// `Scheduler::schedule*` stubs).
pub fn co_yield_with_stub<T: Any>(v: T) {
    assert!(std::mem::size_of::<T>() == std::mem::size_of::<EventSubscriber>());
    let es: EventSubscriber = unsafe { std::mem::transmute_copy(&v) };
    std::mem::forget(v);
    let me = np::cur();
    let raw = unsafe { CO[me] };
    assert!(!raw.is_null(), "co_yield_with outside a coroutine");
    let c = cell(raw);
    assert!(!c.suspended);
    c.suspended = true;
    c.resumed = false;
    c.running = false;
    c.next = Some(noop_subscriber());
    unsafe { SUSPENDS[me] += 1 };
    let co = unsafe { CoroutineImpl::from_raw(raw) };
    // the worker thread runs subscribe after the context switch
    es.subscribe(co);
    let ok = np::block_until(|| cell(raw).resumed);
    if !ok {
        unsafe { STUCK[me] = true };
        assert!(false, "coroutine suspended for ever: nobody will resume it (lost wake-up / lost time-out)");
        kani::assume(false);
    }
    let c = cell(raw);
    c.suspended = false;
    c.resumed = false;
    c.running = true;
}

pub fn co_get_yield_stub<A: Any>() -> Option<A> {
    assert!(std::mem::size_of::<Option<A>>() == std::mem::size_of::<Option<EventResult>>());
    match cur_cell() {
        Some(c) => {
            let v: Option<EventResult> = c.para.take();
            let r: Option<A> = unsafe { std::mem::transmute_copy(&v) };
            std::mem::forget(v);
            r
        }
        None => None,
    }
}

pub fn co_set_para_stub<A: Any>(v: A) {
    assert!(std::mem::size_of::<A>() == std::mem::size_of::<EventResult>());
    let e: EventResult = unsafe { std::mem::transmute_copy(&v) };
    std::mem::forget(v);
    let c = cur_cell().unwrap();
    let old = c.para.replace(e);
    std::mem::forget(old);
}

// ---- scheduler (when it is not the code under test) -----------------------------------------
pub fn install_scheduler() {
    let sched: Box<MaybeUninit<Scheduler>> = Box::new_uninit();
    unsafe { SCHED = Box::into_raw(sched) as *const Scheduler };
}
pub fn get_scheduler_stub() -> &'static Scheduler {
    unsafe { &*SCHED }
}
/// `Scheduler::schedule(co)`: the coroutine becomes runnable and is resumed by some worker.
/// In the model the resumption is delivered at once (its continuation runs when the NP engine
/// returns to the suspended actor).
pub fn schedule_stub(_s: &Scheduler, mut co: CoroutineImpl) {
    let a = co.imp().actor;
    if a != NONE {
        unsafe { RESUMES[a] += 1 };
    }
    let ev = co.resume();
    match ev {
        Some(ev) => ev.subscribe(co),
        None => assert!(false, "scheduled coroutine did not yield a subscriber"),
    }
}

// ---- std / parking_lot machinery that Kani cannot compile -------------------------------------
pub fn catch_unwind_stub<F: FnOnce() -> R + std::panic::UnwindSafe, R>(f: F) -> std::thread::Result<R> {
    Ok(f())
}
pub fn take_hook_stub() -> Box<dyn Fn(&std::panic::PanicHookInfo<'_>) + 'static + Sync + Send> {
    Box::new(|_| {})
}
pub fn set_hook_stub(h: Box<dyn Fn(&std::panic::PanicHookInfo<'_>) + 'static + Sync + Send>) {
    std::mem::forget(h);
}
pub fn arc_drop_slow_stub<T: ?Sized, A: std::alloc::Allocator>(_a: &mut Arc<T, A>) {}
pub fn nop() {}
pub fn print_stub(_a: std::fmt::Arguments<'_>) {}
