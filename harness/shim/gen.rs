//! Model of the `generator` crate's coroutine object for cfg(kani) builds (DESIGN.md §3, P14):
//! same method names as `generator::Generator`, no stack, no context switch.
//!
//! Two kinds of cell:
//!  * body cell   (actor == NONE): `resume()` of a not-yet-started coroutine runs its body to
//!    completion and returns the value (`Some(subscriber)`), or returns `None` when the harness
//!    armed a panic payload (= the closure panicked; Kani has no unwinding).
//!  * actor cell  (actor == a): the coroutine is an NP actor whose code runs on the harness stack;
//!    it is suspended inside the `co_yield_with` stub.  `resume()` marks it resumed and returns the
//!    no-op subscriber parked in `next`.
//! `resume()` asserts single residency (never resumed while running) and exactly-once resumption.
use std::any::Any;
use std::marker::PhantomData;
use std::ptr::NonNull;

pub const NONE: usize = usize::MAX;
/// Set by harnesses in which every coroutine object is an NP actor.  Control flow that matters
/// for the size of the formula must not depend on fields read through data-dependent pointers
/// (CBMC cannot constant-fold them): a static assigned once can be folded.
pub static mut ACTORS_ONLY: bool = false;
/// Set when exactly one coroutine actor exists: its number.  `resume()`/`set_para()` then never
/// read the cell through the (data-dependent, hence imprecise for CBMC) coroutine pointer.
pub static mut SOLE: usize = NONE;
/// per-actor suspension state (statics, not heap fields: see above)
pub static mut SUSPENDED: [bool; 4] = [false; 4];
pub static mut RESUMED: [bool; 4] = [false; 4];
pub static mut RUNNING: [bool; 4] = [false; 4];
pub static mut RESUME_CNT: [usize; 4] = [0; 4];
/// the value an actor coroutine "yields" when it is resumed: a subscriber that does nothing
/// (the actor's continuation runs on the harness stack and performs its own next subscribe)
/// the resume parameter is reduced to what the runtime reads from it (for io::Error: its kind),
/// so that no boxed `dyn Error` travels through the model (its drop glue is a virtual call that
/// CBMC fans out over every implementation)
pub trait ModelPara: Sized {
    fn squash(self) -> Self;
    /// park the parameter of actor coroutine `actor` outside the heap cell (statics indexed by
    /// the actor number keep the value foldable for CBMC)
    fn stash(self, actor: usize);
}
pub trait ModelYield {
    fn noop() -> Self;
}

pub struct FakeImpl<A, T> {
    pub body: Option<Box<dyn FnOnce() -> T>>,
    pub local: *mut u8,
    pub para: Option<A>,
    pub panic: Option<Box<dyn Any + Send>>,
    pub next: Option<T>,
    pub resumes: usize,
    pub running: bool,
    pub done: bool,
    pub actor: usize,
    pub suspended: bool,
    pub resumed: bool,
    /// set by `resume()` on a second resumption of a suspended actor (checked by the harness)
    pub double_resume: bool,
    pub dropped: bool,
    /// harness-armed: the closure is unwound by a cancel panic (the generator swallows it:
    /// resume() returns None and there is no panic payload)
    pub cancel_unwind: bool,
}

pub struct Generator<'a, A, T> {
    gen: NonNull<FakeImpl<A, T>>,
    _p: PhantomData<&'a ()>,
}
unsafe impl<A, T> Send for Generator<'static, A, T> {}

impl<'a, A, T> Generator<'a, A, T> {
    pub fn fresh() -> Self {
        let b = Box::new(FakeImpl {
            body: None,
            local: std::ptr::null_mut(),
            para: None,
            panic: None,
            next: None,
            resumes: 0,
            running: false,
            done: false,
            actor: NONE,
            suspended: false,
            resumed: false,
            double_resume: false,
            dropped: false,
            cancel_unwind: false,
        });
        Generator { gen: NonNull::new(Box::into_raw(b)).unwrap(), _p: PhantomData }
    }
    #[allow(clippy::mut_from_ref)]
    pub fn imp(&self) -> &mut FakeImpl<A, T> {
        unsafe { &mut *self.gen.as_ptr() }
    }
    pub fn raw(&self) -> *mut usize {
        self.gen.as_ptr() as *mut usize
    }
    pub fn init_code<F: FnOnce() -> T + Send + 'a>(&mut self, f: F)
    where
        T: Send + 'a,
    {
        let b: Box<dyn FnOnce() -> T + 'a> = Box::new(f);
        let b: Box<dyn FnOnce() -> T> = unsafe { std::mem::transmute(b) };
        let i = self.imp();
        // like the real crate: `para` and `local` are NOT reset by init_code
        i.body = Some(b);
        i.done = false;
        i.running = false;
        i.resumes = 0;
        i.panic = None;
    }
    /// # Safety: `raw` came from `into_raw`/`raw`
    pub unsafe fn from_raw(raw: *mut usize) -> Self {
        Generator { gen: NonNull::new_unchecked(raw as *mut FakeImpl<A, T>), _p: PhantomData }
    }
    pub fn into_raw(self) -> *mut usize {
        let r = self.gen.as_ptr() as *mut usize;
        std::mem::forget(self);
        r
    }
    pub fn prefetch(&self) {}
    pub fn set_para(&mut self, para: A)
    where
        A: ModelPara,
    {
        unsafe {
            if SOLE != NONE {
                para.stash(SOLE);
                return;
            }
        }
        let i = self.imp();
        if unsafe { ACTORS_ONLY } || i.actor != NONE {
            para.stash(i.actor);
            return;
        }
        let old = i.para.replace(para.squash());
        std::mem::forget(old);
    }
    pub fn set_local_data(&mut self, d: *mut u8) {
        self.imp().local = d;
    }
    pub fn get_local_data(&self) -> *mut u8 {
        self.imp().local
    }
    pub fn get_panic_data(&mut self) -> Option<Box<dyn Any + Send>> {
        self.imp().panic.take()
    }
    pub fn is_done(&self) -> bool {
        self.imp().done
    }
    pub fn stack_usage(&self) -> (usize, usize) {
        (crate::config::config().get_stack_size(), 16)
    }
}

impl<'a, A, T: ModelYield> Generator<'a, A, T> {
    pub fn resume(&mut self) -> Option<T> {
        unsafe {
            if SOLE != NONE || ACTORS_ONLY || self.imp().actor != NONE {
                let a = if SOLE != NONE { SOLE } else { self.imp().actor };
                assert!(!RUNNING[a], "coroutine resumed while it is running on another thread");
                assert!(SUSPENDED[a], "coroutine resumed although it is not suspended");
                assert!(!RESUMED[a], "coroutine resumed twice for one suspension");
                RESUMED[a] = true;
                RESUME_CNT[a] += 1;
                return Some(T::noop());
            }
        }
        let i = self.imp();
        assert!(!i.running, "coroutine resumed while it is running on another thread");
        i.resumes += 1;
        match i.body.take() {
            Some(b) => {
                if i.panic.is_some() || i.cancel_unwind {
                    // the harness armed a panic: the closure unwinds, nothing is returned
                    std::mem::forget(b);
                    i.done = true;
                    return None;
                }
                i.running = true;
                let r = b();
                i.running = false;
                i.done = true;
                Some(r)
            }
            None => {
                assert!(false, "coroutine resumed after it has finished / never initialised");
                None
            }
        }
    }
}
impl<'a, A, T> Drop for Generator<'a, A, T> {
    fn drop(&mut self) {
        self.imp().dropped = true;
    }
}

pub struct Gn<A = ()> {
    _p: PhantomData<A>,
}
impl<A> Gn<A> {
    pub fn new_opt<'a, T: Any, F>(_size: usize, f: F) -> Generator<'a, A, T>
    where
        F: FnOnce() -> T + Send + 'a,
        T: Send + 'a,
    {
        let mut g = Generator::fresh();
        g.init_code(f);
        g
    }
}
impl<'a, A, T> std::fmt::Debug for Generator<'a, A, T> {
    fn fmt(&self, f: &mut std::fmt::Formatter<'_>) -> std::fmt::Result {
        f.write_str("Generator")
    }
}
