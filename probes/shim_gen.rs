// Model of the `generator` crate's coroutine object for cfg(kani) builds: same method names,
// no stack, no context switch.  resume() of a not-yet-started coroutine runs its body to
// completion (bodies used by harnesses that need a *blocking* body drive it as an NP actor instead).
use std::any::Any;
use std::marker::PhantomData;
use std::ptr::NonNull;

pub struct FakeImpl<A, T> {
    pub body: Option<Box<dyn FnOnce() -> T>>,
    pub local: *mut u8,
    pub para: Option<A>,
    pub panic: Option<Box<dyn Any + Send>>,
    pub resumes: usize,
    pub done: bool,
}
pub struct Generator<'a, A, T> { gen: NonNull<FakeImpl<A, T>>, _p: PhantomData<&'a ()> }
unsafe impl<A, T> Send for Generator<'static, A, T> {}

impl<'a, A, T> Generator<'a, A, T> {
    pub fn fresh() -> Self {
        let b = Box::new(FakeImpl { body: None, local: std::ptr::null_mut(), para: None, panic: None, resumes: 0, done: false });
        Generator { gen: NonNull::new(Box::into_raw(b)).unwrap(), _p: PhantomData }
    }
    fn imp(&self) -> &mut FakeImpl<A, T> { unsafe { &mut *self.gen.as_ptr() } }
    pub fn init_code<F: FnOnce() -> T + Send + 'a>(&mut self, f: F) where T: Send + 'a {
        let b: Box<dyn FnOnce() -> T + 'a> = Box::new(f);
        let b: Box<dyn FnOnce() -> T> = unsafe { std::mem::transmute(b) };
        let i = self.imp(); i.body = Some(b); i.done = false; i.resumes = 0;
    }
    pub unsafe fn from_raw(raw: *mut usize) -> Self { Generator { gen: NonNull::new_unchecked(raw as *mut FakeImpl<A, T>), _p: PhantomData } }
    pub fn into_raw(self) -> *mut usize { let r = self.gen.as_ptr() as *mut usize; std::mem::forget(self); r }
    pub fn prefetch(&self) {}
    pub fn set_para(&mut self, para: A) { self.imp().para = Some(para); }
    pub fn set_local_data(&mut self, d: *mut u8) { self.imp().local = d; }
    pub fn get_local_data(&self) -> *mut u8 { self.imp().local }
    pub fn get_panic_data(&mut self) -> Option<Box<dyn Any + Send>> { self.imp().panic.take() }
    pub fn is_done(&self) -> bool { self.imp().done }
    pub fn stack_usage(&self) -> (usize, usize) { (crate::config::config().get_stack_size(), 16) }
    pub fn resume(&mut self) -> Option<T> {
        let i = self.imp();
        i.resumes += 1;
        match i.body.take() {
            Some(b) => { let r = b(); i.done = true; Some(r) }
            None => None,
        }
    }
}
impl<'a, A, T> Drop for Generator<'a, A, T> { fn drop(&mut self) {} }

pub struct Gn<A = ()> { _p: PhantomData<A> }
impl<A> Gn<A> {
    pub fn new_opt<'a, T: Any, F>(_size: usize, f: F) -> Generator<'a, A, T> where F: FnOnce() -> T + Send + 'a, T: Send + 'a {
        let mut g = Generator::fresh();
        g.init_code(f);
        g
    }
}
impl<'a, A, T> std::fmt::Debug for Generator<'a, A, T> {
    fn fmt(&self, f: &mut std::fmt::Formatter<'_>) -> std::fmt::Result { f.write_str("Generator") }
}
