#![allow(static_mut_refs)]
#[cfg(kani)]
mod h {
    use may_queue::mpsc::{Queue, BLOCK_SIZE};
    #[kani::proof]
    #[kani::unwind(70)]
    fn mpsc_seq_block_boundary() {
        let q: Queue<u8> = Queue::new();
        let k: usize = kani::any();
        kani::assume(k <= BLOCK_SIZE + 2);
        // shift the offset: k push/pop pairs
        let mut i = 0;
        while i < k { q.push(0); assert!(q.pop() == Some(0)); i += 1; }
        let a: u8 = kani::any(); let b: u8 = kani::any(); let c: u8 = kani::any();
        q.push(a); q.push(b);
        assert!(q.len() == 2);
        assert!(q.pop() == Some(a));
        q.push(c);
        assert!(q.pop() == Some(b));
        assert!(q.pop() == Some(c));
        assert!(q.pop().is_none());
        assert!(q.is_empty());
        std::mem::forget(q);
    }
}
