// PROBE (design round, not framework): appended to src/timeout_list.rs of a scratch copy of /repo
#[cfg(kani)]
mod verif_h {
    use super::*;
    use std::borrow::Borrow;
    use std::cell::Cell;
    use std::hash::{BuildHasher, Hash, RandomState};

    static mut NOW: u64 = 0;
    fn now_stub() -> u64 { unsafe { NOW } }
    // association model of the interval map (std HashMap does not finish under Kani)
    static mut MK: [u64; 4] = [0; 4];
    static mut MV: [usize; 4] = [0; 4];
    static mut MN: usize = 0;
    fn key_of<Q: ?Sized>(k: &Q) -> u64 { unsafe { *(k as *const Q as *const u64) } }
    fn hm_get<K, V, S, A: std::alloc::Allocator, Q: ?Sized>(_m: &HashMap<K, V, S, A>, k: &Q) -> Option<&'static V>
    where K: Eq + Hash + Borrow<Q>, S: BuildHasher, Q: Hash + Eq, V: 'static {
        let key = key_of(k);
        unsafe { let mut i = 0; while i < MN { if MK[i] == key { return Some(&*(MV[i] as *const V)); } i += 1; } }
        None
    }
    fn hm_insert<K, V, S, A: std::alloc::Allocator>(_m: &mut HashMap<K, V, S, A>, k: K, v: V) -> Option<V> where K: Eq + Hash, S: BuildHasher {
        unsafe { assert!(MN < 4); MK[MN] = key_of(&k); MV[MN] = Box::into_raw(Box::new(v)) as usize; MN += 1; }
        std::mem::forget(k);
        None
    }
    fn hm_len<K, V, S, A: std::alloc::Allocator>(_m: &HashMap<K, V, S, A>) -> usize { unsafe { MN } }
    fn hm_with_capacity<K, V>(_c: usize) -> HashMap<K, V, RandomState> { HashMap::with_hasher(unsafe { std::mem::zeroed() }) }
    fn rs_new() -> RandomState { unsafe { std::mem::zeroed() } }
    fn m_lock_slow(_m: &parking_lot::RawMutex, _t: Option<std::time::Instant>) -> bool { assert!(false); true }
    fn m_unlock_slow(_m: &parking_lot::RawMutex, _f: bool) { assert!(false); }
    fn r_lock_ex_slow(_m: &parking_lot::RawRwLock, _t: Option<std::time::Instant>) -> bool { assert!(false); true }
    fn r_unlock_ex_slow(_m: &parking_lot::RawRwLock, _f: bool) { assert!(false); }
    fn r_lock_sh_slow(_m: &parking_lot::RawRwLock, _r: bool, _t: Option<std::time::Instant>) -> bool { assert!(false); true }
    fn r_unlock_sh_slow(_m: &parking_lot::RawRwLock) { assert!(false); }
    fn arc_drop_slow_stub<T: ?Sized, A: std::alloc::Allocator>(_a: &mut Arc<T, A>) {}

    #[kani::proof]
    #[kani::unwind(5)]
    #[kani::stub(crate::timeout_list::now, now_stub)]
    #[kani::stub(std::collections::HashMap::get, hm_get)]
    #[kani::stub(std::collections::HashMap::insert, hm_insert)]
    #[kani::stub(std::collections::HashMap::len, hm_len)]
    #[kani::stub(std::collections::HashMap::with_capacity, hm_with_capacity)]
    #[kani::stub(std::hash::RandomState::new, rs_new)]
    #[kani::stub(parking_lot::RawMutex::lock_slow, m_lock_slow)]
    #[kani::stub(parking_lot::RawMutex::unlock_slow, m_unlock_slow)]
    #[kani::stub(parking_lot::RawRwLock::lock_exclusive_slow, r_lock_ex_slow)]
    #[kani::stub(parking_lot::RawRwLock::unlock_exclusive_slow, r_unlock_ex_slow)]
    #[kani::stub(parking_lot::RawRwLock::lock_shared_slow, r_lock_sh_slow)]
    #[kani::stub(parking_lot::RawRwLock::unlock_shared_slow, r_unlock_sh_slow)]
    #[kani::stub(std::sync::Arc::drop_slow, arc_drop_slow_stub)]
    fn timer_two() {
        let tl: TimeOutList<usize> = TimeOutList::new();
        let d1: u64 = kani::any();
        let d2: u64 = kani::any();
        kani::assume(d1 >= 1 && d1 <= 3 && d2 >= 1 && d2 <= 3);
        let (h1, _) = tl.add_timer(Duration::from_nanos(d1), 1);
        let (h2, _) = tl.add_timer(Duration::from_nanos(d2), 2);
        let t: u64 = kani::any();
        kani::assume(t <= 4);
        unsafe { NOW = t; }
        let fired = Cell::new(0usize);
        let f = |x: usize| { fired.set(fired.get() | x); };
        let next = tl.schedule_timer(t, &f);
        let fr = fired.get();
        // never early, never missed
        assert!((fr & 1 != 0) == (d1 <= t));
        assert!((fr & 2 != 0) == (d2 <= t));
        // next expiry is the earliest pending deadline
        if fr == 3 { assert!(next.is_none()); }
        if fr == 0 { assert!(next == Some(std::cmp::min(d1, d2) - t)); }
        kani::cover!(fr == 1);
        kani::cover!(fr == 3 && d1 == d2);
        std::mem::forget(h1); std::mem::forget(h2); std::mem::forget(tl);
    }
}
