// PROBE (design round): appended to src/join.rs of a scratch copy; F5 refuted in 53 s
#[cfg(kani)]
mod verif_h {
    use super::*;
    use crate::cancel::Cancel;
    use crate::coroutine_impl::{CoroutineImpl, EventSubscriber};
    use crate::scheduler::Scheduler;
    use std::mem::MaybeUninit;
    use std::panic as stdpanic;
    use std::time::Duration;

    static mut PANICKING: bool = false;
    static mut CANCEL: *const Cancel = std::ptr::null();
    static mut SCHED: *const Scheduler = std::ptr::null();
    static mut JOIN: *const Join = std::ptr::null();
    static mut OWNER_RESUMED: usize = 0;
    static mut PARA: u8 = 0;
    type TD = Arc<AtomicOption<CoroutineImpl>>;

    fn get_scheduler_stub() -> &'static Scheduler { unsafe { &*SCHED } }
    fn schedule_stub(_s: &Scheduler, co: CoroutineImpl) { std::mem::forget(co); unsafe { OWNER_RESUMED += 1; } }
    fn run_coroutine_stub(co: CoroutineImpl) { std::mem::forget(co); unsafe { OWNER_RESUMED += 1; } }
    fn add_timer_stub(_s: &Scheduler, _d: Duration, _co: TD) -> crate::timeout_list::TimeoutHandle<TD> { kani::assume(false); loop {} }
    fn del_timer_stub(_s: &Scheduler, h: crate::timeout_list::TimeoutHandle<TD>) { std::mem::forget(h); }
    fn is_coroutine_true() -> bool { true }
    fn current_cancel_data_stub() -> &'static Cancel { unsafe { &*CANCEL } }
    fn co_cancel_data_stub(_co: &CoroutineImpl) -> &'static Cancel { unsafe { &*CANCEL } }
    fn panicking_var() -> bool { unsafe { PANICKING } }
    fn co_set_para_stub<A: std::any::Any>(para: A) { std::mem::forget(para); unsafe { PARA = 1; } }
    fn get_co_para_stub() -> Option<std::io::Error> { unsafe { if PARA == 1 { PARA = 0; Some(std::io::Error::from(std::io::ErrorKind::Other)) } else { None } } }
    fn yield_now_stub() { kani::assume(false); }
    fn tp_park(_t: &crate::sync::blocking::ThreadPark, _d: Option<Duration>) -> std::result::Result<(), crate::park::ParkError> { assert!(false, "thread park in coroutine harness"); Ok(()) }
    fn tp_unpark(_t: &crate::sync::blocking::ThreadPark) { assert!(false, "thread unpark in coroutine harness"); }
    fn err_other_stub<E: Into<Box<dyn std::error::Error + Send + Sync>>>(e: E) -> std::io::Error { std::mem::forget(e); std::io::Error::from(std::io::ErrorKind::Other) }
    fn err_new_stub<E: Into<Box<dyn std::error::Error + Send + Sync>>>(k: std::io::ErrorKind, e: E) -> std::io::Error { std::mem::forget(e); std::io::Error::from(k) }
    fn trigger_cancel_panic_stub() -> ! { assert!(false, "second cancel panic while unwinding"); kani::assume(false); loop {} }
    fn catch_unwind_stub<F: FnOnce() -> R + std::panic::UnwindSafe, R>(f: F) -> std::thread::Result<R> { Ok(f()) }
    fn take_hook_stub() -> Box<dyn Fn(&std::panic::PanicHookInfo<'_>) + 'static + Sync + Send> { Box::new(|_| {}) }
    fn set_hook_stub(h: Box<dyn Fn(&std::panic::PanicHookInfo<'_>) + 'static + Sync + Send>) { std::mem::forget(h); }
    fn arc_drop_slow_stub<T: ?Sized, A: std::alloc::Allocator>(_a: &mut Arc<T, A>) {}
    fn co_yield_with_stub<T: std::any::Any>(v: T) {
        let b: Box<dyn std::any::Any> = Box::new(v);
        let es = *b.downcast::<EventSubscriber>().unwrap();
        es.subscribe(CoroutineImpl::fresh());
        // the owner is really suspended: now the child finishes
        unsafe { (*JOIN).trigger(); }
        unsafe { assert!(OWNER_RESUMED == 1, "owner parked forever in join"); }
    }

    #[kani::proof]
    #[kani::unwind(3)]
    #[kani::stub(crate::scheduler::get_scheduler, get_scheduler_stub)]
    #[kani::stub(crate::scheduler::Scheduler::schedule, schedule_stub)]
    #[kani::stub(crate::scheduler::Scheduler::add_timer, add_timer_stub)]
    #[kani::stub(crate::scheduler::Scheduler::del_timer, del_timer_stub)]
    #[kani::stub(crate::coroutine_impl::run_coroutine, run_coroutine_stub)]
    #[kani::stub(crate::coroutine_impl::is_coroutine, is_coroutine_true)]
    #[kani::stub(crate::coroutine_impl::current_cancel_data, current_cancel_data_stub)]
    #[kani::stub(crate::coroutine_impl::co_cancel_data, co_cancel_data_stub)]
    #[kani::stub(crate::yield_now::get_co_para, get_co_para_stub)]
    #[kani::stub(crate::yield_now::yield_now, yield_now_stub)]
    #[kani::stub(crate::cancel::trigger_cancel_panic, trigger_cancel_panic_stub)]
    #[kani::stub(generator::co_set_para, co_set_para_stub)]
    #[kani::stub(generator::co_yield_with, co_yield_with_stub)]
    #[kani::stub(std::thread::panicking, panicking_var)]
    #[kani::stub(crate::sync::blocking::ThreadPark::park_timeout, tp_park)]
    #[kani::stub(crate::sync::blocking::ThreadPark::unpark, tp_unpark)]
    #[kani::stub(stdpanic::catch_unwind, catch_unwind_stub)]
    #[kani::stub(stdpanic::take_hook, take_hook_stub)]
    #[kani::stub(stdpanic::set_hook, set_hook_stub)]
    #[kani::stub(std::sync::Arc::drop_slow, arc_drop_slow_stub)]
    fn join_wait_by_cancelled_unwinding_owner() {
        let cancel = Cancel::new();
        let sched: Box<MaybeUninit<Scheduler>> = Box::new_uninit();
        let join = Join::new(Arc::new(AtomicOption::none()));
        unsafe { CANCEL = &cancel; SCHED = Box::into_raw(sched) as *const Scheduler; JOIN = &join; }
        let owner_cancelled: bool = kani::any();
        if owner_cancelled { unsafe { cancel.cancel(); PANICKING = true; } }
        // the child has not finished (state == true); the owner joins it from a scope destructor
        join.wait();
        assert!(!join.state.load(Ordering::Acquire), "wait() returned while the coroutine has not finished");
        kani::cover!(owner_cancelled);
        kani::cover!(!owner_cancelled);
        std::mem::forget(join);
    }
}
