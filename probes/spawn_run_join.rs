// PROBE (design round, not framework): appended to src/coroutine_impl.rs of a scratch copy of /repo
#[cfg(kani)]
mod verif_h {
    use super::*;
    use crate::scheduler::Scheduler;
    use crate::pool::CoroutinePool;
    use std::mem::MaybeUninit;
    use std::panic as stdpanic;
    use crate::sync::Blocker;
    use crate::park::ParkError;

    static mut SCHED: *const Scheduler = std::ptr::null();
    static mut POOLED: usize = 0;
    fn get_scheduler_stub() -> &'static Scheduler { unsafe { &*SCHED } }
    fn pool_get_stub(_p: &CoroutinePool) -> CoroutineImpl { CoroutineImpl::fresh() }
    fn pool_put_stub(_p: &CoroutinePool, co: CoroutineImpl) { unsafe { POOLED += 1; } std::mem::forget(co); }
    fn catch_unwind_stub<F: FnOnce() -> R + std::panic::UnwindSafe, R>(f: F) -> std::thread::Result<R> { Ok(f()) }
    fn take_hook_stub() -> Box<dyn Fn(&std::panic::PanicHookInfo<'_>) + 'static + Sync + Send> { Box::new(|_| {}) }
    fn set_hook_stub(h: Box<dyn Fn(&std::panic::PanicHookInfo<'_>) + 'static + Sync + Send>) { std::mem::forget(h); }
    fn panicking_stub() -> bool { false }
    fn is_coroutine_stub() -> bool { false }
    fn park_model(_b: &Blocker, _t: Option<std::time::Duration>) -> Result<(), ParkError> { assert!(false, "join would block after completion"); Ok(()) }
    fn unpark_model(_b: &Blocker) {}
    fn arc_drop_slow_stub<T: ?Sized, A: std::alloc::Allocator>(_a: &mut Arc<T, A>) {}

    #[kani::proof]
    #[kani::unwind(3)]
    #[kani::stub(crate::scheduler::get_scheduler, get_scheduler_stub)]
    #[kani::stub(crate::pool::CoroutinePool::get, pool_get_stub)]
    #[kani::stub(crate::pool::CoroutinePool::put, pool_put_stub)]
    #[kani::stub(stdpanic::catch_unwind, catch_unwind_stub)]
    #[kani::stub(stdpanic::take_hook, take_hook_stub)]
    #[kani::stub(stdpanic::set_hook, set_hook_stub)]
    #[kani::stub(std::thread::panicking, panicking_stub)]
    #[kani::stub(crate::coroutine_impl::is_coroutine, is_coroutine_stub)]
    #[kani::stub(crate::sync::Blocker::park, park_model)]
    #[kani::stub(crate::sync::Blocker::unpark, unpark_model)]
    #[kani::stub(std::sync::Arc::drop_slow, arc_drop_slow_stub)]
    fn spawn_run_join_value() {
        let sched: Box<MaybeUninit<Scheduler>> = Box::new_uninit();
        unsafe { SCHED = Box::into_raw(sched) as *const Scheduler; }
        let v: u8 = kani::any();
        let (co, handle) = Builder::new().spawn_impl(move || v).unwrap();
        assert!(!handle.is_done());
        // the worker resumes it: REAL run_coroutine -> model resume() runs the REAL closure built by
        // spawn_impl -> REAL Done::subscribe/drop_coroutine
        run_coroutine(co);
        assert!(handle.is_done());
        assert!(unsafe { POOLED } == 1);
        let r = handle.join();
        assert!(r.is_ok());
        assert!(r.unwrap() == v);
    }
}
