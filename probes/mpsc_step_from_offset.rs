// PROBE (design round, not framework): appended to may_queue/src/mpsc.rs of a scratch copy of /repo
#[cfg(kani)]
mod verif_h {
    use super::*;
    #[kani::proof]
    #[kani::unwind(6)]
    fn mpsc_step_from_offset() {
        let q: Queue<u8> = Queue::new();
        // move the empty queue to an arbitrary slot offset inside its first block
        let id: usize = kani::any();
        kani::assume(id < BLOCK_SIZE);
        let blk = q.head.block.load(Ordering::Relaxed);
        q.head.index.store(id, Ordering::Relaxed);
        q.tail.0.store(BlockPtr::pack(blk, id), Ordering::Relaxed);
        let a: u8 = kani::any(); let b: u8 = kani::any(); let c: u8 = kani::any();
        q.push(a); q.push(b);
        assert!(q.len() == 2);
        assert!(q.pop() == Some(a));
        q.push(c);
        assert!(q.pop() == Some(b));
        assert!(q.pop() == Some(c));
        assert!(q.pop().is_none());
        assert!(q.is_empty());
        kani::cover!(id == BLOCK_MASK);
        kani::cover!(id == BLOCK_MASK - 1);
        std::mem::forget(q);
    }
}
