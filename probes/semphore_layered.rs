// PROBE (design round, not framework): appended to src/sync/semphore.rs of a scratch copy of /repo
#[cfg(kani)]
mod verif_h {
    use super::*;
    use crate::sync::blocking::Blocker;
    use std::sync::atomic::{AtomicBool, AtomicIsize, AtomicUsize};

    static mut DEPTH: usize = 0;
    static mut P_DONE: bool = false;
    static mut SEM: *const Semphore = std::ptr::null();
    static mut TOKEN: bool = false;
    static mut QTAB: [u64; 4] = [0; 4];
    static mut QH: usize = 0;
    static mut QT: usize = 0;

    fn run_p() { unsafe { P_DONE = true; DEPTH += 1; (*SEM).post(); DEPTH -= 1; } }
    fn hook() { unsafe { if DEPTH == 0 && !P_DONE && kani::any() { run_p(); } } }

    fn isize_fetch_sub(a: &AtomicIsize, v: isize, _o: Ordering) -> isize { hook(); unsafe { let p = a.as_ptr(); let old = *p; *p = old.wrapping_sub(v); old } }
    fn isize_fetch_add(a: &AtomicIsize, v: isize, _o: Ordering) -> isize { hook(); unsafe { let p = a.as_ptr(); let old = *p; *p = old.wrapping_add(v); old } }
    fn isize_load(a: &AtomicIsize, _o: Ordering) -> isize { hook(); unsafe { *a.as_ptr() } }
    fn isize_cas(a: &AtomicIsize, cur: isize, new: isize, _s: Ordering, _f: Ordering) -> Result<isize, isize> {
        hook(); unsafe { let p = a.as_ptr(); let old = *p; if old == cur { *p = new; Ok(old) } else { Err(old) } }
    }
    fn bool_swap(a: &AtomicBool, v: bool, _o: Ordering) -> bool { hook(); unsafe { let p = a.as_ptr(); let old = *p; *p = v; old } }
    fn bool_load(a: &AtomicBool, _o: Ordering) -> bool { hook(); unsafe { *a.as_ptr() } }
    fn bool_store(a: &AtomicBool, v: bool, _o: Ordering) { hook(); unsafe { *a.as_ptr() = v; } }

    fn q_push<T>(_q: &SegQueue<T>, v: T) {
        hook();
        assert!(std::mem::size_of::<T>() == 8);
        unsafe { assert!(QT < 4); QTAB[QT] = std::mem::transmute_copy::<T, u64>(&v); QT += 1; }
        std::mem::forget(v);
    }
    fn q_pop<T>(_q: &SegQueue<T>) -> Option<T> {
        hook();
        unsafe { if QH == QT { None } else { let r = std::mem::transmute_copy::<u64, T>(&QTAB[QH]); QH += 1; Some(r) } }
    }
    fn is_coroutine_stub() -> bool { false }
    fn unpark_model(_b: &Blocker) { hook(); unsafe { TOKEN = true; } }
    fn park_model(_b: &Blocker, timeout: Option<Duration>) -> Result<(), ParkError> {
        hook();
        unsafe {
            if TOKEN { TOKEN = false; return Ok(()); }
            // the timer may win the race against a later post
            if timeout.is_some() && kani::any() { return Err(ParkError::Timeout); }
            if !P_DONE { run_p(); }
            if TOKEN { TOKEN = false; return Ok(()); }
            if timeout.is_some() { return Err(ParkError::Timeout); }
            assert!(false, "waiter parked forever although all posts completed");
            Ok(())
        }
    }
    fn arc_drop_slow_stub<T: ?Sized, A: std::alloc::Allocator>(_a: &mut Arc<T, A>) {}

    #[kani::proof]
    #[kani::unwind(4)]
    #[kani::stub(core::sync::atomic::Atomic::<isize>::fetch_sub, isize_fetch_sub)]
    #[kani::stub(core::sync::atomic::Atomic::<isize>::fetch_add, isize_fetch_add)]
    #[kani::stub(core::sync::atomic::Atomic::<isize>::load, isize_load)]
    #[kani::stub(core::sync::atomic::Atomic::<isize>::compare_exchange, isize_cas)]
    #[kani::stub(core::sync::atomic::Atomic::<bool>::swap, bool_swap)]
    #[kani::stub(core::sync::atomic::Atomic::<bool>::load, bool_load)]
    #[kani::stub(core::sync::atomic::Atomic::<bool>::store, bool_store)]
    #[kani::stub(crossbeam::queue::SegQueue::push, q_push)]
    #[kani::stub(crossbeam::queue::SegQueue::pop, q_pop)]
    #[kani::stub(crate::coroutine_impl::is_coroutine, is_coroutine_stub)]
    #[kani::stub(crate::sync::blocking::Blocker::park, park_model)]
    #[kani::stub(crate::sync::blocking::Blocker::unpark, unpark_model)]
    #[kani::stub(std::sync::Arc::drop_slow, arc_drop_slow_stub)]
    fn sem_wait_timeout_vs_post() {
        let init: usize = kani::any();
        kani::assume(init <= 1);
        let sem = Semphore::new(init);
        unsafe { SEM = &sem; }
        let timed: bool = kani::any();
        let ok = if timed { sem.wait_timeout(Duration::from_millis(5)) } else { sem.wait(); true };
        unsafe { if !P_DONE { run_p(); } }
        // quiescence: permits conserved
        let cnt = unsafe { *sem.cnt.as_ptr() };
        assert!(cnt == init as isize + 1 - (ok as isize));
        if !timed { assert!(ok); }
        kani::cover!(!ok);
        kani::cover!(ok && timed && init == 0);
        std::mem::forget(sem);
    }
}
