// PROBE (design round): appended to src/sync/mpmc.rs of a scratch copy; F7 refuted in 126 s (depth-2 nesting, Semphore contract model)
#[cfg(kani)]
mod verif_h {
    use super::*;
    use std::sync::atomic::AtomicUsize as SU;

    // actors: 0 = R1 (root), 1 = R2, 2 = D (drop of the only Sender)
    static mut DEPTH: usize = 0;
    static mut STARTED: [bool; 3] = [true, false, false];
    static mut FINISHED: [bool; 3] = [false; 3];
    static mut RES: [u8; 3] = [0; 3];       // 1 = got Disconnected
    static mut Q: *const InnerQueue<u8> = std::ptr::null();
    // Semphore contract model (C10): a counter; a waiter blocks until it is positive
    static mut SEM: isize = 0;
    const MAXD: usize = 2;

    fn run_actor(i: usize) {
        unsafe {
            STARTED[i] = true; DEPTH += 1;
            if i == 2 { (*Q).drop_tx(); }
            else { RES[i] = match (*Q).recv(None) { Err(RecvTimeoutError::Disconnected) => 1, Ok(_) => 2, Err(RecvTimeoutError::Timeout) => 3 }; }
            FINISHED[i] = true; DEPTH -= 1;
        }
    }
    fn hook() {
        unsafe {
            if DEPTH < MAXD {
                if !STARTED[1] && kani::any() { run_actor(1); }
                if !STARTED[2] && kani::any() { run_actor(2); }
            }
        }
    }
    fn us_load(a: &SU, _o: Ordering) -> usize { hook(); unsafe { *a.as_ptr() } }
    fn us_fetch_sub(a: &SU, v: usize, _o: Ordering) -> usize { hook(); unsafe { let p = a.as_ptr(); let old = *p; *p = old.wrapping_sub(v); old } }
    fn q_pop<T>(_q: &SegQueue<T>) -> Option<T> { hook(); None }          // nothing is ever sent in this scenario
    fn sem_try_wait(_s: &Semphore) -> bool { hook(); unsafe { if SEM > 0 { SEM -= 1; true } else { false } } }
    fn sem_post(_s: &Semphore) { hook(); unsafe { SEM += 1; } }
    fn sem_get_value(_s: &Semphore) -> usize { hook(); unsafe { if SEM > 0 { SEM as usize } else { 0 } } }
    fn sem_wait_timeout(_s: &Semphore, _d: Duration) -> bool { kani::assume(false); false }
    use std::panic as stdpanic;
    fn catch_unwind_stub<F: FnOnce() -> R + std::panic::UnwindSafe, R>(f: F) -> std::thread::Result<R> { Ok(f()) }
    fn take_hook_stub() -> Box<dyn Fn(&std::panic::PanicHookInfo<'_>) + 'static + Sync + Send> { Box::new(|_| {}) }
    fn set_hook_stub(h: Box<dyn Fn(&std::panic::PanicHookInfo<'_>) + 'static + Sync + Send>) { std::mem::forget(h); }
    fn sem_wait(_s: &Semphore) {
        hook();
        unsafe {
            if SEM > 0 { SEM -= 1; return; }
            // blocked: everybody who has not started yet gets to run (they may post)
            if DEPTH < MAXD {
                if !STARTED[1] { run_actor(1); }
                if SEM <= 0 && !STARTED[2] { run_actor(2); }
            }
            if SEM > 0 { SEM -= 1; return; }
            if DEPTH > 0 { kani::assume(false); }   // a nested actor that cannot proceed: schedule covered with roles exchanged
            // root is blocked and nobody can post any more
            assert!(!(STARTED[2] && FINISHED[2]), "receiver parked forever after the last sender was dropped");
            kani::assume(false);
        }
    }

    #[kani::proof]
    #[kani::unwind(4)]
    #[kani::stub(core::sync::atomic::Atomic::<usize>::load, us_load)]
    #[kani::stub(core::sync::atomic::Atomic::<usize>::fetch_sub, us_fetch_sub)]
    #[kani::stub(crossbeam::queue::SegQueue::pop, q_pop)]
    #[kani::stub(crate::sync::semphore::Semphore::try_wait, sem_try_wait)]
    #[kani::stub(crate::sync::semphore::Semphore::post, sem_post)]
    #[kani::stub(crate::sync::semphore::Semphore::get_value, sem_get_value)]
    #[kani::stub(crate::sync::semphore::Semphore::wait, sem_wait)]
    #[kani::stub(crate::sync::semphore::Semphore::wait_timeout, sem_wait_timeout)]
    #[kani::stub(stdpanic::catch_unwind, catch_unwind_stub)]
    #[kani::stub(stdpanic::take_hook, take_hook_stub)]
    #[kani::stub(stdpanic::set_hook, set_hook_stub)]
    fn mpmc_two_receivers_vs_last_sender_drop() {
        let q: InnerQueue<u8> = InnerQueue::new();
        unsafe { Q = &q; }
        // R1
        let r = q.recv(None);
        unsafe { RES[0] = match r { Err(RecvTimeoutError::Disconnected) => 1, Ok(_) => 2, Err(RecvTimeoutError::Timeout) => 3 }; }
        unsafe {
            if !STARTED[1] { DEPTH = 0; run_actor(1); }
            if !STARTED[2] { DEPTH = 0; run_actor(2); }
            kani::cover!(RES[0] == 1 && RES[1] == 1);
            assert!(RES[0] == 1);
            if FINISHED[1] { assert!(RES[1] == 1); }
        }
        std::mem::forget(q);
    }
}
