//! Kani-NP: stack-disciplined pre-emption engine (DESIGN.md §2).
//!
//! Actors are numbered 0..NACT; actor `a` has NOPS[a] whole operations, executed by the
//! harness-supplied `RUN(a, pc)`.  `point()` is called by every stubbed shared-memory primitive
//! *before* it acts: the solver decides whether another actor's next whole operation runs right
//! here (nested, down to MAXD).  `block_until` is called by the blocking models.
use core::sync::atomic::Ordering;

pub const MAXA: usize = 4;
pub static mut ON: bool = false;
pub static mut DEPTH: usize = 0;
pub static mut MAXD: usize = 1;
/// how many whole operations may be inserted at one schedule point
pub static mut ROUNDS: usize = 1;
pub static mut CUR: usize = 0;
pub static mut NACT: usize = 0;
pub static mut PC: [usize; MAXA] = [0; MAXA];
pub static mut NOPS: [usize; MAXA] = [0; MAXA];
/// inside an operation (running, pre-empted or blocked)
pub static mut ACTIVE: [bool; MAXA] = [false; MAXA];
pub static mut RUN: Option<fn(usize, usize)> = None;
/// optional harness-supplied enabling condition of an actor's next operation (e.g. "a timer is armed")
pub static mut GUARD: Option<fn(usize) -> bool> = None;
/// number of pre-emptions taken on this path (for reachability witnesses)
pub static mut PREEMPTS: usize = 0;
/// number of times an actor had to wait for others (blocked path taken)
pub static mut BLOCKS: usize = 0;
/// harness-controlled `thread::panicking()` per actor
pub static mut PANICKING: [bool; MAXA] = [false; MAXA];

pub fn setup(maxd: usize, rounds: usize, nops: &[usize], run: fn(usize, usize)) {
    unsafe {
        MAXD = maxd;
        ROUNDS = rounds;
        NACT = nops.len();
        // straight-line on purpose: the engine must not add to the harness' unwind bound
        NOPS = [0; MAXA];
        if nops.len() > 0 { NOPS[0] = nops[0]; }
        if nops.len() > 1 { NOPS[1] = nops[1]; }
        if nops.len() > 2 { NOPS[2] = nops[2]; }
        if nops.len() > 3 { NOPS[3] = nops[3]; }
        PC = [0; MAXA];
        ACTIVE = [false; MAXA];
        RUN = Some(run);
        GUARD = None;
        DEPTH = 0;
        ON = true;
    }
}

#[inline]
pub fn cur() -> usize {
    unsafe { CUR }
}

#[inline]
fn eligible(a: usize) -> bool {
    unsafe {
        a < NACT
            && !ACTIVE[a]
            && PC[a] < NOPS[a]
            && match GUARD {
                Some(g) => g(a),
                None => true,
            }
    }
}

/// run model-internal code without schedule points
pub fn quiet<R, F: FnOnce() -> R>(f: F) -> R {
    unsafe {
        let on = ON;
        ON = false;
        let r = f();
        ON = on;
        r
    }
}

fn any_eligible() -> bool {
    eligible(0) || eligible(1) || eligible(2) || eligible(3)
}

/// every actor other than the current one has finished all its operations
fn others_done() -> bool {
    unsafe {
        let busy = |a: usize| a < NACT && a != CUR && (ACTIVE[a] || eligible(a));
        !(busy(0) || busy(1) || busy(2) || busy(3))
    }
}

/// run the next whole operation of actor `a` on top of the current stack
pub fn run_next(a: usize) {
    unsafe {
        let pc = PC[a];
        PC[a] = pc + 1;
        ACTIVE[a] = true;
        let saved = CUR;
        CUR = a;
        (RUN.unwrap())(a, pc);
        CUR = saved;
        ACTIVE[a] = false;
    }
}

/// Run the next operation of one eligible actor, chosen by the solver.  The choice is an
/// explicit cascade over *constant* actor numbers so that CBMC's constant propagation prunes the
/// actors that are on the stack (a symbolic index would make every actor's code, including the
/// running one's, feasible at every schedule point).
fn run_some() -> bool {
    if eligible(0) && (kani::any::<bool>() || !(eligible(1) || eligible(2) || eligible(3))) {
        run_next(0);
        true
    } else if eligible(1) && (kani::any::<bool>() || !(eligible(2) || eligible(3))) {
        run_next(1);
        true
    } else if eligible(2) && (kani::any::<bool>() || !eligible(3)) {
        run_next(2);
        true
    } else if eligible(3) {
        run_next(3);
        true
    } else {
        false
    }
}

fn nest(a: usize) {
    unsafe {
        DEPTH += 1;
        PREEMPTS += 1;
        run_next(a);
        DEPTH -= 1;
    }
}

/// Addresses of atomics that only one actor of the harness ever touches (partial-order
/// reduction: a pre-emption right before an operation that is independent of every other
/// actor's operations is equivalent to a pre-emption before the actor's next dependent
/// operation, so no schedule is lost by skipping the point).  Set by the harness.
pub static mut LOCAL_ONLY: [*const u8; 4] = [core::ptr::null(); 4];
pub fn point_at(addr: *const u8) {
    unsafe {
        if addr == LOCAL_ONLY[0] || addr == LOCAL_ONLY[1] || addr == LOCAL_ONLY[2] || addr == LOCAL_ONLY[3] {
            return;
        }
    }
    point();
}

/// schedule point: the solver may insert whole operations of other actors here
pub fn point() {
    unsafe {
        if !ON || DEPTH >= MAXD {
            return;
        }
        let mut r = 0;
        while r < ROUNDS {
            if eligible(0) && kani::any::<bool>() {
                nest(0);
            } else if eligible(1) && kani::any::<bool>() {
                nest(1);
            } else if eligible(2) && kani::any::<bool>() {
                nest(2);
            } else if eligible(3) && kani::any::<bool>() {
                nest(3);
            } else {
                break;
            }
            r += 1;
        }
    }
}

/// the current actor cannot continue until `cond` holds: let the others run (same nesting
/// depth: a blocked frame is inert).  If nobody can make it true the actor is stuck for ever:
/// a deadlock when every other actor has finished, otherwise a schedule outside the
/// stack-disciplined class (pruned; covered by the twin harness with the roles exchanged).
pub fn block_until<F: Fn() -> bool>(cond: F) -> bool {
    unsafe {
        if !cond() {
            BLOCKS += 1;
        }
        while !cond() {
            if !run_some() {
                break;
            }
        }
        if cond() {
            return true;
        }
        if others_done() {
            return false; // caller reports the deadlock with its own message
        }
        kani::assume(false);
        false
    }
}

/// one unsuccessful poll of a spin loop: somebody else has to make progress
pub fn spin() -> bool {
    if run_some() {
        return true;
    }
    if others_done() {
        return false; // spinning on something nobody will ever write
    }
    kani::assume(false);
    false
}

/// run actor `root` to completion (schedule points between and inside its operations), then
/// everything that is left, in a solver-chosen serial order.
pub fn run_all(root: usize) {
    unsafe {
        while PC[root] < NOPS[root] {
            point();
            run_next(root);
        }
        finish();
    }
}

pub fn finish() {
    while run_some() {}
}

pub fn all_done() -> bool {
    unsafe {
        let busy = |a: usize| a < NACT && (ACTIVE[a] || PC[a] < NOPS[a]);
        !(busy(0) || busy(1) || busy(2) || busy(3))
    }
}

pub fn panicking_stub() -> bool {
    unsafe { PANICKING[CUR] }
}
