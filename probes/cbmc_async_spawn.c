unsigned long verif_thread_body(unsigned long id);
unsigned long verif_spawn(unsigned long id) {
  __CPROVER_ASYNC_1: verif_thread_body(id);
  return 0;
}
