// C02 (and the park half of C08/C09): harnesses over the real src/park.rs, yield_now.rs, cancel.rs.
// Child module of src/park.rs (cfg(kani) only).
use super::*;
use crate::coroutine_impl::verif_kani::{cancel_of, make_actor_coroutine, park_of};
use crate::coroutine_impl::Coroutine;
use crate::verif_shim::{np, rt, sa};
use std::panic as stdpanic;

const P: usize = 0; // the parking coroutine
const U: usize = 1; // unparker(s): a plain thread
const T: usize = 2; // timer thread: expiry of armed entries
const X: usize = 3; // canceller

static mut HANDLE: Option<Coroutine> = None;
static mut DUR: [Option<Duration>; 2] = [None; 2];
static mut RES: [Option<Result<(), ParkError>>; 2] = [None; 2];
static mut N_PARKS: usize = 0;
static mut UNPARKS_STARTED: usize = 0;
static mut UNPARKS_STARTED_AT_RETURN: [usize; 2] = [0; 2];
static mut FIRED_AT_RETURN: [usize; 2] = [0; 2];
static mut CANCEL_STARTED: bool = false;
static mut STRICT: bool = true; // fresh-Blocker semantics (no spurious results tolerated)
static mut EXCLUDE_F2: bool = true;
static mut BLOCKED_PATH: bool = false;

fn park() -> &'static Park {
    unsafe { park_of(HANDLE.as_ref().unwrap()) }
}

fn guard(a: usize) -> bool {
    unsafe {
        if a == T {
            // a timer can only expire once it is armed; known finding F2 (expiry inside the
            // arm -> publish window of Park::subscribe) is excluded from the main harnesses by
            // harness-observable events and has its own witness harness
            return rt::timer_pending() && !(EXCLUDE_F2 && rt::ARM_WINDOW);
        }
        true
    }
}

fn run(a: usize, pc: usize) {
    unsafe {
        match a {
            P => {
                let timed = DUR[pc].is_some();
                rt::WAKE_DUE[P] = rt::WAKE_DUE[P] || timed;
                let r = park().park_timeout(DUR[pc]);
                RES[pc] = Some(r);
                N_PARKS += 1;
                UNPARKS_STARTED_AT_RETURN[pc] = UNPARKS_STARTED;
                FIRED_AT_RETURN[pc] = rt::TIMERS_FIRED;
                // obligations are per park: what was due has been consumed by this return
                rt::WAKE_DUE[P] = CANCEL_STARTED;
            }
            U => {
                UNPARKS_STARTED += 1;
                rt::WAKE_DUE[P] = true;
                park().unpark();
            }
            T => rt::timer_fire_one(),
            _ => {
                CANCEL_STARTED = true;
                rt::WAKE_DUE[P] = true;
                cancel_of(HANDLE.as_ref().unwrap()).cancel();
            }
        }
    }
}

/// cancel ends the coroutine with a panic; Kani has no unwinding, so the scenario is completed
/// from here (remaining actors) and the path ends.
fn cancel_panic_stub() -> ! {
    unsafe {
        assert!(CANCEL_STARTED, "C09: cancel panic raised in a coroutine that was never cancelled");
        DIVERGED = true;
    }
    np::finish();
    final_checks();
    kani::assume(false);
    unreachable!()
}
static mut DIVERGED: bool = false;

fn final_checks() {
    unsafe {
        kani::cover!(DIVERGED, "cancelled coroutine reached the cancel panic");
    }
}

fn setup(nparks: usize, nunparks: usize, timer: bool, canceller: bool, depth: usize, rounds: usize) {
    rt::install_scheduler();
    rt::install_timer();
    np::setup(depth, rounds, &[nparks, nunparks, if timer { 2 } else { 0 }, if canceller { 1 } else { 0 }], run);
    unsafe {
        np::GUARD = Some(guard);
        crate::verif_shim::gen::ACTORS_ONLY = true;
        crate::verif_shim::gen::SOLE = P;
        HANDLE = Some(make_actor_coroutine(P));
        // touched by the parker / its own worker only (DESIGN §2.3, partial-order reduction)
        let p = park();
        np::LOCAL_ONLY[0] = p.wait_kernel.as_ptr() as *const u8;
        np::LOCAL_ONLY[1] = p.check_cancel.as_ptr() as *const u8;
        np::LOCAL_ONLY[2] = &p.timeout as *const AtomicDuration as *const u8;
        np::LOCAL_ONLY[3] = p.timeout_handle.as_ptr() as *const u8;
    }
}

macro_rules! park_harness {
    ($(#[$m:meta])* fn $name:ident() $body:block) => {
        #[kani::proof]
        $(#[$m])*
        #[kani::stub(core::sync::atomic::Atomic::<bool>::swap, sa::bool_swap)]
        #[kani::stub(core::sync::atomic::Atomic::<bool>::load, sa::bool_load)]
        #[kani::stub(core::sync::atomic::Atomic::<bool>::store, sa::bool_store)]
        #[kani::stub(crossbeam::atomic::AtomicCell::swap, rt::cell_swap)]
        #[kani::stub(crossbeam::atomic::AtomicCell::store, rt::cell_store)]
        #[kani::stub(crossbeam::atomic::AtomicCell::take, rt::cell_take)]
        #[kani::stub(core::sync::atomic::Atomic::<usize>::swap, sa::usize_swap)]
        #[kani::stub(core::sync::atomic::Atomic::<usize>::load, sa::usize_load)]
        #[kani::stub(core::sync::atomic::Atomic::<usize>::store, sa::usize_store)]
        #[kani::stub(core::sync::atomic::Atomic::<usize>::fetch_or, sa::usize_fetch_or)]
        #[kani::stub(crate::scheduler::get_scheduler, rt::get_scheduler_stub)]
        #[kani::stub(crate::scheduler::Scheduler::schedule, rt::schedule_stub)]
        #[kani::stub(crate::scheduler::Scheduler::add_timer, rt::add_timer_stub)]
        #[kani::stub(crate::scheduler::Scheduler::del_timer, rt::del_timer_stub)]
        #[kani::stub(stdpanic::catch_unwind, rt::catch_unwind_stub)]
        #[kani::stub(stdpanic::take_hook, rt::take_hook_stub)]
        #[kani::stub(stdpanic::set_hook, rt::set_hook_stub)]
        #[kani::stub(std::thread::panicking, np::panicking_stub)]
        #[kani::stub(std::sync::Arc::drop_slow, rt::arc_drop_slow_stub)]
        #[kani::stub(generator::co_yield_with, rt::co_yield_with_stub)]
        #[kani::stub(crate::coroutine_impl::EventSubscriber::new, crate::coroutine_impl::verif_kani::event_subscriber_new_stub)]
        #[kani::stub(generator::co_get_yield, rt::co_get_yield_stub)]
        #[kani::stub(generator::co_set_para, rt::co_set_para_stub)]
        #[kani::stub(generator::get_local_data, rt::get_local_data_stub)]
        #[kani::stub(crate::cancel::trigger_cancel_panic, cancel_panic_stub)]
        #[kani::stub(crate::yield_now::yield_now, rt::yield_now_unreachable)]
        #[kani::stub(crate::sync::blocking::ThreadPark::park_timeout, crate::sync::blocking::verif_kani::thread_park_model)]
        #[kani::stub(crate::sync::blocking::ThreadPark::unpark, crate::sync::blocking::verif_kani::thread_unpark_model)]
        #[kani::stub(<core::io::CustomOwner as core::ops::Drop>::drop, rt::custom_owner_drop_stub)]
        #[kani::stub(std::io::ErrorKind::from_prim, rt::from_prim_unreachable)]
        #[kani::stub(std::io::_eprint, rt::print_stub)]
        #[kani::stub(std::io::_print, rt::print_stub)]
        fn $name() $body
    };
}

macro_rules! park_harness_nocancel {
    ($(#[$m:meta])* fn $name:ident() $body:block) => {
        #[kani::proof]
        $(#[$m])*
        #[kani::stub(core::sync::atomic::Atomic::<bool>::swap, sa::bool_swap)]
        #[kani::stub(core::sync::atomic::Atomic::<bool>::load, sa::bool_load)]
        #[kani::stub(core::sync::atomic::Atomic::<bool>::store, sa::bool_store)]
        #[kani::stub(crossbeam::atomic::AtomicCell::swap, rt::cell_swap)]
        #[kani::stub(crossbeam::atomic::AtomicCell::store, rt::cell_store)]
        #[kani::stub(crossbeam::atomic::AtomicCell::take, rt::cell_take)]
        #[kani::stub(core::sync::atomic::Atomic::<usize>::swap, sa::usize_swap)]
        #[kani::stub(core::sync::atomic::Atomic::<usize>::load, sa::usize_load)]
        #[kani::stub(core::sync::atomic::Atomic::<usize>::store, sa::usize_store)]
        #[kani::stub(core::sync::atomic::Atomic::<usize>::fetch_or, sa::usize_fetch_or)]
        #[kani::stub(crate::scheduler::get_scheduler, rt::get_scheduler_stub)]
        #[kani::stub(crate::scheduler::Scheduler::schedule, rt::schedule_stub)]
        #[kani::stub(crate::scheduler::Scheduler::add_timer, rt::add_timer_stub)]
        #[kani::stub(crate::scheduler::Scheduler::del_timer, rt::del_timer_stub)]
        #[kani::stub(stdpanic::catch_unwind, rt::catch_unwind_stub)]
        #[kani::stub(stdpanic::take_hook, rt::take_hook_stub)]
        #[kani::stub(stdpanic::set_hook, rt::set_hook_stub)]
        #[kani::stub(std::thread::panicking, np::panicking_stub)]
        #[kani::stub(std::sync::Arc::drop_slow, rt::arc_drop_slow_stub)]
        #[kani::stub(generator::co_yield_with, rt::co_yield_with_stub)]
        #[kani::stub(crate::coroutine_impl::EventSubscriber::new, crate::coroutine_impl::verif_kani::event_subscriber_new_stub)]
        #[kani::stub(generator::co_get_yield, rt::co_get_yield_stub)]
        #[kani::stub(generator::co_set_para, rt::co_set_para_stub)]
        #[kani::stub(generator::get_local_data, rt::get_local_data_stub)]
        #[kani::stub(crate::cancel::trigger_cancel_panic, cancel_panic_stub)]
        #[kani::stub(crate::cancel::CancelImpl::is_canceled, crate::cancel::verif_kani::is_canceled_never)]
        #[kani::stub(crate::yield_now::yield_now, rt::yield_now_unreachable)]
        #[kani::stub(crate::sync::blocking::ThreadPark::park_timeout, crate::sync::blocking::verif_kani::thread_park_model)]
        #[kani::stub(crate::sync::blocking::ThreadPark::unpark, crate::sync::blocking::verif_kani::thread_unpark_model)]
        #[kani::stub(<core::io::CustomOwner as core::ops::Drop>::drop, rt::custom_owner_drop_stub)]
        #[kani::stub(std::io::ErrorKind::from_prim, rt::from_prim_unreachable)]
        #[kani::stub(std::io::_eprint, rt::print_stub)]
        #[kani::stub(std::io::_print, rt::print_stub)]
        fn $name() $body
    };
}

/// One park on a fresh Park (what every Blocker does) against an unparker, the timer and nothing
/// else: never lost, resumed exactly once, Timeout only if the timer fired, Ok only if unparked.
fn fresh_park_vs_unpark_timer(depth: usize, exclude_f2: bool) {
    let timed: bool = kani::any();
    let has_u: bool = kani::any();
    setup(1, if has_u { 1 } else { 0 }, true, false, depth, 1);
    unsafe {
        EXCLUDE_F2 = exclude_f2;
        DUR[0] = if timed { Some(Duration::from_millis(3)) } else { None };
    }
    np::run_all(P);
    unsafe {
        let r = RES[0].unwrap();
        assert!(r != Err(ParkError::Canceled), "C02: Canceled reported for a coroutine that was never cancelled");
        if r == Err(ParkError::Timeout) {
            assert!(timed && FIRED_AT_RETURN[0] > 0, "C02/C08: Timeout reported although no timer expired");
        }
        if r.is_ok() {
            assert!(UNPARKS_STARTED_AT_RETURN[0] > 0, "C02: fresh park returned Ok without any unpark");
        }
        kani::cover!(r == Err(ParkError::Timeout), "park returned Timeout");
        kani::cover!(r.is_ok() && rt::SUSPENDS[P] == 1 && timed, "timed park really suspended and was woken by unpark");
        kani::cover!(r.is_ok() && rt::SUSPENDS[P] == 0, "unpark before park: no suspension");
        kani::cover!(r.is_ok() && np::PREEMPTS > 0 && rt::SUSPENDS[P] == 1, "unpark landed inside park_timeout/subscribe");
    }
}

park_harness! {
    #[kani::unwind(4)]
    fn c02_fresh_park_unpark_timer_d1() { fresh_park_vs_unpark_timer(1, true) }
}
park_harness! {
    #[kani::unwind(4)]
    fn c02_fresh_park_unpark_timer_d2() { fresh_park_vs_unpark_timer(2, true) }
}
park_harness! {
    #[kani::unwind(4)]
    fn c08_f2_witness_timer_fires_before_publish() { fresh_park_vs_unpark_timer(1, false) }
}

park_harness! {
    #[kani::unwind(2)]
    fn exp_cancel_before_park() {
        setup(1, 0, false, false, 0, 1);
        unsafe {
            DUR[0] = None;
            CANCEL_STARTED = true;
            cancel_of(HANDLE.as_ref().unwrap()).cancel();
        }
        np::run_all(P);
    }
}
park_harness! {
    #[kani::unwind(4)]
    fn exp_park_unpark_only() {
        setup(1, 1, false, false, 1, 1);
        unsafe { DUR[0] = None; }
        np::run_all(P);
    }
}

park_harness! {
    #[kani::unwind(2)]
    fn exp_run_coroutine_direct() {
        setup(1, 0, false, false, 0, 1);
        unsafe {
            crate::verif_shim::gen::SUSPENDED[P] = true;
            crate::verif_shim::gen::RUNNING[P] = false;
            let co = CoroutineImpl::from_raw(rt::CO[P]);
            crate::coroutine_impl::run_coroutine(co);
            assert!(crate::verif_shim::gen::RESUMED[P]);
        }
    }
}

park_harness! {
    #[kani::unwind(2)]
    fn exp_unpark_then_park() {
        setup(1, 0, false, false, 0, 1);
        unsafe { DUR[0] = None; }
        park().unpark();
        np::run_all(P);
    }
}
park_harness! {
    #[kani::unwind(2)]
    fn exp_park_then_unpark_blocked() {
        setup(1, 1, false, false, 0, 1);
        unsafe { DUR[0] = None; }
        np::run_all(P);
    }
}

park_harness! {
    #[kani::unwind(2)]
    fn exp_setup_only() {
        setup(1, 0, false, false, 0, 1);
    }
}
park_harness! {
    #[kani::unwind(2)]
    fn exp_setup_unpark() {
        setup(1, 0, false, false, 0, 1);
        park().unpark();
    }
}

park_harness_nocancel! {
    #[kani::unwind(2)]
    fn exp_park_unpark_d1_u2() {
        setup(1, 1, false, false, 1, 1);
        unsafe { DUR[0] = None; }
        np::run_all(P);
    }
}
