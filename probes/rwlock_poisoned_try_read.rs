// PROBE (design round): appended to src/sync/rwlock.rs of a scratch copy; F3 (2 s) and F4 (5.6 s)
#[cfg(kani)]
mod verif_h {
    use super::*;
    static mut PANICKING: bool = false;
    fn panicking_stub() -> bool { unsafe { PANICKING } }
    fn is_coroutine_stub() -> bool { false }
    fn arc_drop_slow_stub<T: ?Sized, A: std::alloc::Allocator>(_a: &mut Arc<T, A>) {}
    use std::panic as stdpanic;
    use crate::sync::blocking::Blocker;
    fn catch_unwind_stub<F: FnOnce() -> R + std::panic::UnwindSafe, R>(f: F) -> std::thread::Result<R> { Ok(f()) }
    fn take_hook_stub() -> Box<dyn Fn(&std::panic::PanicHookInfo<'_>) + 'static + Sync + Send> { Box::new(|_| {}) }
    fn set_hook_stub(h: Box<dyn Fn(&std::panic::PanicHookInfo<'_>) + 'static + Sync + Send>) { std::mem::forget(h); }
    fn park_model(_b: &Blocker, _t: Option<std::time::Duration>) -> Result<(), ParkError> { assert!(false, "would block"); Ok(()) }
    fn unpark_model(_b: &Blocker) {}

    #[kani::proof]
    #[kani::stub(stdpanic::catch_unwind, catch_unwind_stub)]
    #[kani::stub(stdpanic::take_hook, take_hook_stub)]
    #[kani::stub(stdpanic::set_hook, set_hook_stub)]
    #[kani::stub(crate::sync::blocking::Blocker::park, park_model)]
    #[kani::stub(crate::sync::blocking::Blocker::unpark, unpark_model)]
    #[kani::unwind(4)]
    #[kani::stub(std::thread::panicking, panicking_stub)]
    #[kani::stub(crate::coroutine_impl::is_coroutine, is_coroutine_stub)]
    #[kani::stub(std::sync::Arc::drop_slow, arc_drop_slow_stub)]
    fn rwlock_poisoned_try_read_then_free() {
        let l = RwLock::new(0u8);
        // a writer panics while holding the guard
        {
            let g = l.write().unwrap();
            unsafe { PANICKING = true; }
            drop(g);
            unsafe { PANICKING = false; }
        }
        assert!(l.is_poisoned());
        // recover a read guard from the poison error and drop it
        match l.try_read() {
            Ok(_) => assert!(false),
            Err(TryLockError::Poisoned(e)) => { let g = e.into_inner(); drop(g); }
            Err(TryLockError::WouldBlock) => assert!(false),
        }
        // all guards dropped: the lock must be free again
        match l.try_write() {
            Err(TryLockError::WouldBlock) => assert!(false, "lock leaked"),
            Ok(g) => std::mem::forget(g),
            Err(TryLockError::Poisoned(e)) => std::mem::forget(e),
        }
        std::mem::forget(l);
    }

    // ---- F4 probe: two try_write on a poisoned lock, B's whole call inside A's window ----
    use std::sync::atomic::AtomicUsize as SU;
    static mut DEPTH: usize = 0;
    static mut B_DONE: bool = false;
    static mut B_HOLDS: bool = false;
    static mut L: *const RwLock<u8> = std::ptr::null();
    fn run_b() {
        unsafe {
            B_DONE = true; DEPTH += 1;
            match (*L).try_write() {
                Ok(g) => { B_HOLDS = true; std::mem::forget(g); }
                Err(TryLockError::Poisoned(e)) => { B_HOLDS = true; std::mem::forget(e); }
                Err(TryLockError::WouldBlock) => {}
            }
            DEPTH -= 1;
        }
    }
    fn hook() { unsafe { if DEPTH == 0 && !L.is_null() && !B_DONE && kani::any() { run_b(); } } }
    fn us_load(a: &SU, _o: Ordering) -> usize { hook(); unsafe { *a.as_ptr() } }
    fn us_cas(a: &SU, cur: usize, new: usize, _s: Ordering, _f: Ordering) -> Result<usize, usize> {
        hook(); unsafe { let p = a.as_ptr(); let old = *p; if old == cur { *p = new; Ok(old) } else { Err(old) } }
    }

    #[kani::proof]
    #[kani::unwind(4)]
    #[kani::stub(core::sync::atomic::Atomic::<usize>::load, us_load)]
    #[kani::stub(core::sync::atomic::Atomic::<usize>::compare_exchange, us_cas)]
    #[kani::stub(stdpanic::catch_unwind, catch_unwind_stub)]
    #[kani::stub(stdpanic::take_hook, take_hook_stub)]
    #[kani::stub(stdpanic::set_hook, set_hook_stub)]
    #[kani::stub(crate::sync::blocking::Blocker::park, park_model)]
    #[kani::stub(crate::sync::blocking::Blocker::unpark, unpark_model)]
    #[kani::stub(std::thread::panicking, panicking_stub)]
    #[kani::stub(crate::coroutine_impl::is_coroutine, is_coroutine_stub)]
    #[kani::stub(std::sync::Arc::drop_slow, arc_drop_slow_stub)]
    fn rwlock_poisoned_two_try_write() {
        let l = RwLock::new(0u8);
        let poisoned: bool = kani::any();
        kani::assume(!poisoned);
        if poisoned {
            let g = l.write().unwrap();
            unsafe { PANICKING = true; }
            drop(g);
            unsafe { PANICKING = false; }
        }
        unsafe { L = &l; }
        let a_holds = match l.try_write() {
            Ok(g) => { std::mem::forget(g); true }
            Err(TryLockError::Poisoned(e)) => { std::mem::forget(e); true }
            Err(TryLockError::WouldBlock) => false,
        };
        unsafe { if !B_DONE { run_b(); } }
        kani::cover!(poisoned && a_holds);
        kani::cover!(unsafe { B_HOLDS } && !a_holds);
        assert!(!(a_holds && unsafe { B_HOLDS }), "two write guards handed out at once");
        std::mem::forget(l);
    }
}
