// PROBE (design round, not framework): appended to src/sync/rwlock.rs of a scratch copy of /repo
#[cfg(kani)]
mod verif_h {
    use super::*;
    static mut PANICKING: bool = false;
    fn panicking_stub() -> bool { unsafe { PANICKING } }
    fn is_coroutine_stub() -> bool { false }
    fn arc_drop_slow_stub<T: ?Sized, A: std::alloc::Allocator>(_a: &mut Arc<T, A>) {}
    use std::panic as stdpanic;
    use crate::sync::blocking::Blocker;
    fn catch_unwind_stub<F: FnOnce() -> R + std::panic::UnwindSafe, R>(f: F) -> std::thread::Result<R> { Ok(f()) }
    fn take_hook_stub() -> Box<dyn Fn(&std::panic::PanicHookInfo<'_>) + 'static + Sync + Send> { Box::new(|_| {}) }
    fn set_hook_stub(h: Box<dyn Fn(&std::panic::PanicHookInfo<'_>) + 'static + Sync + Send>) { std::mem::forget(h); }
    fn park_model(_b: &Blocker, _t: Option<std::time::Duration>) -> Result<(), ParkError> { assert!(false, "would block"); Ok(()) }
    fn unpark_model(_b: &Blocker) {}

    #[kani::proof]
    #[kani::stub(stdpanic::catch_unwind, catch_unwind_stub)]
    #[kani::stub(stdpanic::take_hook, take_hook_stub)]
    #[kani::stub(stdpanic::set_hook, set_hook_stub)]
    #[kani::stub(crate::sync::blocking::Blocker::park, park_model)]
    #[kani::stub(crate::sync::blocking::Blocker::unpark, unpark_model)]
    #[kani::unwind(4)]
    #[kani::stub(std::thread::panicking, panicking_stub)]
    #[kani::stub(crate::coroutine_impl::is_coroutine, is_coroutine_stub)]
    #[kani::stub(std::sync::Arc::drop_slow, arc_drop_slow_stub)]
    fn rwlock_poisoned_try_read_then_free() {
        let l = RwLock::new(0u8);
        // a writer panics while holding the guard
        {
            let g = l.write().unwrap();
            unsafe { PANICKING = true; }
            drop(g);
            unsafe { PANICKING = false; }
        }
        assert!(l.is_poisoned());
        // recover a read guard from the poison error and drop it
        match l.try_read() {
            Ok(_) => assert!(false),
            Err(TryLockError::Poisoned(e)) => { let g = e.into_inner(); drop(g); }
            Err(TryLockError::WouldBlock) => assert!(false),
        }
        // all guards dropped: the lock must be free again
        match l.try_write() {
            Err(TryLockError::WouldBlock) => assert!(false, "lock leaked"),
            Ok(g) => std::mem::forget(g),
            Err(TryLockError::Poisoned(e)) => std::mem::forget(e),
        }
        std::mem::forget(l);
    }
}
