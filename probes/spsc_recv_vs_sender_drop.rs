// PROBE (design round, not framework): appended to src/sync/spsc.rs of a scratch copy of /repo
#[cfg(kani)]
mod verif_h {
    use super::*;
    use crate::cancel::Cancel;
    use crate::scheduler::Scheduler;
    use std::mem::MaybeUninit;
    use std::panic as stdpanic;
    use std::sync::atomic::{AtomicBool as SB, AtomicPtr as SP, AtomicU64 as SU64, AtomicUsize as SU};

    static mut DEPTH: usize = 0;
    static mut D_DONE: bool = false;
    static mut TX: Option<Sender<u8>> = None;
    static mut RESUMED: usize = 0;
    static mut CO_RAW: usize = 0;
    static mut CANCEL: *const Cancel = std::ptr::null();
    static mut SCHED: *const Scheduler = std::ptr::null();

    fn run_d() { unsafe { D_DONE = true; DEPTH += 1; drop(TX.take()); DEPTH -= 1; } }
    fn hook() { unsafe { if DEPTH == 0 && !D_DONE && kani::any() { run_d(); } } }
    fn b_load(a: &SB, _o: Ordering) -> bool { hook(); unsafe { *a.as_ptr() } }
    fn b_store(a: &SB, v: bool, _o: Ordering) { hook(); unsafe { *a.as_ptr() = v; } }
    fn u_load(a: &SU, _o: Ordering) -> usize { hook(); unsafe { *a.as_ptr() } }
    fn u_store(a: &SU, v: usize, _o: Ordering) { hook(); unsafe { *a.as_ptr() = v; } }
    fn p_load<T>(a: &SP<T>, _o: Ordering) -> *mut T { hook(); unsafe { *a.as_ptr() } }
    fn p_store<T>(a: &SP<T>, v: *mut T, _o: Ordering) { hook(); unsafe { *a.as_ptr() = v; } }
    fn u64_swap(a: &SU64, v: u64, _o: Ordering) -> u64 { hook(); let p = a.as_ptr(); unsafe { let old = *p; *p = v; old } }
    fn u64_store(a: &SU64, v: u64, _o: Ordering) { hook(); unsafe { *a.as_ptr() = v; } }
    fn get_scheduler_stub() -> &'static Scheduler { unsafe { &*SCHED } }
    fn resumed(co: CoroutineImpl) { let raw = co.into_raw() as usize; unsafe { assert!(raw == CO_RAW); RESUMED += 1; } }
    fn schedule_stub(_s: &Scheduler, co: CoroutineImpl) { resumed(co) }
    fn run_coroutine_stub(co: CoroutineImpl) { resumed(co) }
    fn is_coroutine_stub() -> bool { true }
    fn current_cancel_data_stub() -> &'static Cancel { unsafe { &*CANCEL } }
    fn yield_now_stub() { kani::assume(false); }
    fn catch_unwind_stub<F: FnOnce() -> R + std::panic::UnwindSafe, R>(f: F) -> std::thread::Result<R> { Ok(f()) }
    fn take_hook_stub() -> Box<dyn Fn(&std::panic::PanicHookInfo<'_>) + 'static + Sync + Send> { Box::new(|_| {}) }
    fn set_hook_stub(h: Box<dyn Fn(&std::panic::PanicHookInfo<'_>) + 'static + Sync + Send>) { std::mem::forget(h); }
    fn arc_drop_slow_stub<T: ?Sized, A: std::alloc::Allocator>(_a: &mut Arc<T, A>) {}
    fn co_yield_with_stub<T: std::any::Any>(v: T) {
        let b: Box<dyn std::any::Any> = Box::new(v);
        let es = *b.downcast::<crate::coroutine_impl::EventSubscriber>().unwrap();
        let co = CoroutineImpl::fresh();
        unsafe { CO_RAW = co.into_raw() as usize; }
        let co = unsafe { CoroutineImpl::from_raw(CO_RAW as *mut usize) };
        es.subscribe(co);
        hook();
        unsafe {
            if RESUMED == 0 && !D_DONE { run_d(); }
            assert!(RESUMED <= 1, "double resume");
            assert!(RESUMED == 1, "receiver parked forever after the last sender was dropped");
            RESUMED = 0;
        }
    }

    #[kani::proof]
    #[kani::unwind(4)]
    #[kani::stub(core::sync::atomic::Atomic::<bool>::load, b_load)]
    #[kani::stub(core::sync::atomic::Atomic::<bool>::store, b_store)]
    #[kani::stub(core::sync::atomic::Atomic::<usize>::load, u_load)]
    #[kani::stub(core::sync::atomic::Atomic::<usize>::store, u_store)]
    #[kani::stub(core::sync::atomic::Atomic::<*mut T>::load, p_load)]
    #[kani::stub(core::sync::atomic::Atomic::<*mut T>::store, p_store)]
    #[kani::stub(core::sync::atomic::Atomic::<u64>::swap, u64_swap)]
    #[kani::stub(core::sync::atomic::Atomic::<u64>::store, u64_store)]
    #[kani::stub(crate::scheduler::get_scheduler, get_scheduler_stub)]
    #[kani::stub(crate::scheduler::Scheduler::schedule, schedule_stub)]
    #[kani::stub(crate::coroutine_impl::run_coroutine, run_coroutine_stub)]
    #[kani::stub(crate::coroutine_impl::is_coroutine, is_coroutine_stub)]
    #[kani::stub(crate::coroutine_impl::current_cancel_data, current_cancel_data_stub)]
    #[kani::stub(crate::yield_now::yield_now, yield_now_stub)]
    #[kani::stub(generator::co_yield_with, co_yield_with_stub)]
    #[kani::stub(stdpanic::catch_unwind, catch_unwind_stub)]
    #[kani::stub(stdpanic::take_hook, take_hook_stub)]
    #[kani::stub(stdpanic::set_hook, set_hook_stub)]
    #[kani::stub(std::sync::Arc::drop_slow, arc_drop_slow_stub)]
    fn spsc_co_recv_vs_last_sender_drop() {
        let cancel = Cancel::new();
        let sched: Box<MaybeUninit<Scheduler>> = Box::new_uninit();
        let (tx, rx) = channel::<u8>();
        unsafe {
            CANCEL = &cancel;
            SCHED = Box::into_raw(sched) as *const Scheduler;
            TX = Some(tx);
        }
        let r = rx.recv();
        // no value was ever sent: the only legal outcome is Disconnected, and only after the drop
        assert!(r.is_err());
        assert!(unsafe { D_DONE });
        std::mem::forget(rx);
    }
}
