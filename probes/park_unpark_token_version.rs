// PROBE: first Park probe (token coroutine via from_raw + AtomicCell cell model), 10 s
#[cfg(kani)]
mod verif_h {
    use super::*;
    use crate::scheduler::Scheduler;
    use std::panic as stdpanic;
    use std::sync::atomic::{AtomicBool, AtomicU64, Ordering};
    use std::mem::MaybeUninit;

    static mut DEPTH: usize = 0;
    static mut U_DONE: bool = false;
    static mut PARK: *const Park = std::ptr::null();
    static mut RESUMED: usize = 0;
    static mut CANCEL: *const Cancel = std::ptr::null();
    static mut SCHED: *const Scheduler = std::ptr::null();

    const CO_TOKEN: usize = 0x1000;

    fn hook() {
        unsafe {
            if DEPTH == 0 && !U_DONE && kani::any() {
                DEPTH += 1;
                U_DONE = true;
                (*PARK).unpark();
                DEPTH -= 1;
            }
        }
    }
    fn bool_swap(a: &AtomicBool, v: bool, _o: Ordering) -> bool {
        hook();
        let p = a.as_ptr();
        unsafe { let old = *p; *p = v; old }
    }
    fn bool_load(a: &AtomicBool, _o: Ordering) -> bool {
        hook();
        unsafe { *a.as_ptr() }
    }
    fn bool_store(a: &AtomicBool, v: bool, _o: Ordering) {
        hook();
        unsafe { *a.as_ptr() = v; }
    }
    fn u64_swap(a: &AtomicU64, v: u64, _o: Ordering) -> u64 {
        hook();
        let p = a.as_ptr();
        unsafe { let old = *p; *p = v; old }
    }
    fn u64_store(a: &AtomicU64, v: u64, _o: Ordering) {
        hook();
        unsafe { *a.as_ptr() = v; }
    }
    fn get_scheduler_stub() -> &'static Scheduler { unsafe { &*SCHED } }
    fn schedule_stub(_s: &Scheduler, co: CoroutineImpl) {
        let raw = co.into_raw() as usize;
        assert!(raw == CO_TOKEN);
        unsafe { RESUMED += 1; }
    }
    fn run_coroutine_stub(co: CoroutineImpl) {
        let raw = co.into_raw() as usize;
        assert!(raw == CO_TOKEN);
        unsafe { RESUMED += 1; }
    }
    fn co_cancel_data_stub(_co: &CoroutineImpl) -> &'static Cancel { unsafe { &*CANCEL } }
    type TD = Arc<AtomicOption<CoroutineImpl>>;
    fn add_timer_stub(_s: &Scheduler, _d: Duration, _co: TD) -> TimeoutHandle<TD> { kani::assume(false); unreachable!() }
    fn del_timer_stub(_s: &Scheduler, h: TimeoutHandle<TD>) { std::mem::forget(h); }
    fn catch_unwind_stub<F: FnOnce() -> R + std::panic::UnwindSafe, R>(f: F) -> std::thread::Result<R> { Ok(f()) }
    unsafe fn catch_unwind_stub2<R, F: FnOnce() -> R>(f: F) -> Result<R, Box<dyn std::any::Any + Send>> { Ok(f()) }
    fn take_hook_stub() -> Box<dyn Fn(&std::panic::PanicHookInfo<'_>) + 'static + Sync + Send> { Box::new(|_| {}) }
    fn set_hook_stub(h: Box<dyn Fn(&std::panic::PanicHookInfo<'_>) + 'static + Sync + Send>) { std::mem::forget(h); }
    fn panicking_stub() -> bool { true }
    // crossbeam AtomicCell model: 8-byte cell, old values are returned or forgotten, never dropped
    fn cell_swap<T>(c: &crossbeam::atomic::AtomicCell<T>, v: T) -> T {
        hook();
        unsafe { let p = c.as_ptr(); let old = std::ptr::read(p); std::ptr::write(p, v); old }
    }
    fn cell_store<T>(c: &crossbeam::atomic::AtomicCell<T>, v: T) {
        hook();
        unsafe { let p = c.as_ptr(); let old = std::ptr::read(p); std::ptr::write(p, v); std::mem::forget(old); }
    }
    fn cell_take<T: Default>(c: &crossbeam::atomic::AtomicCell<T>) -> T {
        hook();
        unsafe { let p = c.as_ptr(); let old = std::ptr::read(p); std::ptr::write(p, T::default()); old }
    }
    fn arc_drop_slow_stub<T: ?Sized, A: std::alloc::Allocator>(_a: &mut Arc<T, A>) {}
    fn get_co_para_stub() -> Option<crate::coroutine_impl::EventResult> { None }
    fn yield_now_stub() { kani::assume(false); }
    fn current_cancel_data_stub() -> &'static Cancel { unsafe { &*CANCEL } }
    fn co_yield_with_stub<T: std::any::Any>(v: T) {
        let b: Box<dyn std::any::Any> = Box::new(v);
        let es = *b.downcast::<crate::coroutine_impl::EventSubscriber>().unwrap();
        let co = unsafe { CoroutineImpl::from_raw(CO_TOKEN as *mut usize) };
        // the worker thread runs subscribe after the context switch
        es.subscribe(co);
        // suspended: the only other actor is U
        hook();
        unsafe {
            if RESUMED == 0 && !U_DONE {
                U_DONE = true;
                DEPTH += 1;
                (*PARK).unpark();
                DEPTH -= 1;
            }
            // lost wake-up <=> nobody resumed us although unpark has completed
            assert!(RESUMED == 1);
        }
    }

    #[kani::proof]
    #[kani::unwind(3)]
    #[kani::stub(core::sync::atomic::Atomic::<bool>::swap, bool_swap)]
    #[kani::stub(core::sync::atomic::Atomic::<bool>::load, bool_load)]
    #[kani::stub(core::sync::atomic::Atomic::<bool>::store, bool_store)]
    #[kani::stub(core::sync::atomic::Atomic::<u64>::swap, u64_swap)]
    #[kani::stub(core::sync::atomic::Atomic::<u64>::store, u64_store)]
    #[kani::stub(crate::scheduler::get_scheduler, get_scheduler_stub)]
    #[kani::stub(crate::scheduler::Scheduler::schedule, schedule_stub)]
    #[kani::stub(stdpanic::catch_unwind, catch_unwind_stub)]
    #[kani::stub(crossbeam::atomic::AtomicCell::swap, cell_swap)]
    #[kani::stub(crossbeam::atomic::AtomicCell::store, cell_store)]
    #[kani::stub(crossbeam::atomic::AtomicCell::take, cell_take)]
    #[kani::stub(std::sync::Arc::drop_slow, arc_drop_slow_stub)]
    #[kani::stub(std::thread::panicking, panicking_stub)]
    #[kani::stub(stdpanic::take_hook, take_hook_stub)]
    #[kani::stub(stdpanic::set_hook, set_hook_stub)]
    #[kani::stub(crate::scheduler::Scheduler::add_timer, add_timer_stub)]
    #[kani::stub(crate::scheduler::Scheduler::del_timer, del_timer_stub)]
    #[kani::stub(crate::coroutine_impl::run_coroutine, run_coroutine_stub)]
    #[kani::stub(crate::coroutine_impl::co_cancel_data, co_cancel_data_stub)]
    #[kani::stub(crate::yield_now::get_co_para, get_co_para_stub)]
    #[kani::stub(crate::yield_now::yield_now, yield_now_stub)]
    #[kani::stub(generator::co_yield_with, co_yield_with_stub)]
    #[kani::stub(crate::coroutine_impl::current_cancel_data, current_cancel_data_stub)]
    fn park_unpark_no_lost_wakeup() {
        let park = Park::new();
        let cancel = Cancel::new();
        let sched: Box<MaybeUninit<Scheduler>> = Box::new_uninit();
        unsafe {
            PARK = &park;
            CANCEL = &cancel;
            SCHED = Box::into_raw(sched) as *const Scheduler;
        }
        let r = park.park_timeout(None);
        assert!(r.is_ok());
        unsafe {
            // whether or not we blocked, by now U may still be pending; run it
            if !U_DONE { U_DONE = true; park.unpark(); }
            kani::cover!(RESUMED == 1);
            kani::cover!(RESUMED == 0);
        }
        // a second park must not block: token from unpark (if it came after the first park returned)
        std::mem::forget(park);
    }
}
