// PROBE (design round, not framework): appended to may_queue/src/spmc.rs of a scratch copy of /repo
#[cfg(kani)]
mod verif_h {
    use super::*;
    use std::sync::atomic::{AtomicPtr as StdPtr, AtomicUsize as StdUsize};
    static mut DEPTH: usize = 0;
    static mut STEALS: usize = 0;
    static mut Q: *const Queue<u8> = std::ptr::null();
    static mut GOT: [u8; 4] = [0; 4];   // how many times value i was obtained

    fn stealer() {
        unsafe {
            DEPTH += 1; STEALS += 1;
            if let Some(v) = (*Q).pop() { assert!((v as usize) < 4); GOT[v as usize] += 1; }
            DEPTH -= 1;
        }
    }
    fn hook() { unsafe { if DEPTH == 0 && STEALS < 2 && kani::any() { stealer(); } } }
    fn ptr_load<T>(a: &StdPtr<T>, _o: Ordering) -> *mut T { hook(); unsafe { *a.as_ptr() } }
    fn ptr_store<T>(a: &StdPtr<T>, v: *mut T, _o: Ordering) { hook(); unsafe { *a.as_ptr() = v; } }
    fn ptr_casw<T>(a: &StdPtr<T>, cur: *mut T, new: *mut T, _s: Ordering, _f: Ordering) -> Result<*mut T, *mut T> {
        hook(); unsafe { let p = a.as_ptr(); let old = *p; if old == cur { *p = new; Ok(old) } else { Err(old) } }
    }
    fn us_load(a: &StdUsize, _o: Ordering) -> usize { hook(); unsafe { *a.as_ptr() } }
    fn us_store(a: &StdUsize, v: usize, _o: Ordering) { hook(); unsafe { *a.as_ptr() = v; } }
    fn us_fetch_sub(a: &StdUsize, v: usize, _o: Ordering) -> usize { hook(); unsafe { let p = a.as_ptr(); let old = *p; *p = old.wrapping_sub(v); old } }
    fn backoff_nop(_b: &Backoff) {}
    fn sleep_stub(_d: std::time::Duration) { kani::assume(false); }

    #[kani::proof]
    #[kani::unwind(4)]
    #[kani::stub(core::sync::atomic::Atomic::<*mut T>::load, ptr_load)]
    #[kani::stub(core::sync::atomic::Atomic::<*mut T>::store, ptr_store)]
    #[kani::stub(core::sync::atomic::Atomic::<*mut T>::compare_exchange_weak, ptr_casw)]
    #[kani::stub(core::sync::atomic::Atomic::<usize>::load, us_load)]
    #[kani::stub(core::sync::atomic::Atomic::<usize>::store, us_store)]
    #[kani::stub(core::sync::atomic::Atomic::<usize>::fetch_sub, us_fetch_sub)]
    #[kani::stub(crossbeam_utils::Backoff::spin, backoff_nop)]
    #[kani::stub(crossbeam_utils::Backoff::snooze, backoff_nop)]
    #[kani::stub(std::thread::sleep, sleep_stub)]
    fn spmc_owner_vs_stealers() {
        let q: Queue<u8> = Queue::new();
        unsafe { Q = &q; }
        q.push(1);
        q.push(2);
        if let Some(v) = q.local_pop() { assert!((v as usize) < 4); unsafe { GOT[v as usize] += 1; } }
        q.push(3);
        // quiescence: drain
        unsafe { DEPTH = 1; }
        let mut i = 0;
        while i < 3 { if let Some(v) = q.local_pop() { unsafe { GOT[v as usize] += 1; } } i += 1; }
        unsafe {
            assert!(GOT[0] == 0);
            assert!(GOT[1] == 1 && GOT[2] == 1 && GOT[3] == 1);
            kani::cover!(STEALS == 2);
        }
        std::mem::forget(q);
    }
}
