// PROBE (design round, not framework): appended to src/park.rs of a scratch copy of /repo
#[cfg(kani)]
mod verif_h {
    use super::*;
    use crate::scheduler::Scheduler;
    use std::sync::atomic::{AtomicBool, AtomicU64, AtomicUsize, Ordering};
    use std::mem::MaybeUninit;
    use std::panic as stdpanic;
    use may_queue::mpsc_list_v1::Queue as TQ;
    use crate::timeout_list::TimeoutData;

    type TD = Arc<AtomicOption<CoroutineImpl>>;
    static mut DEPTH: usize = 0;
    static mut U_EXISTS: bool = false;
    static mut U_DONE: bool = false;
    static mut T_ARMED: bool = false;     // a timer has been armed by subscribe
    static mut T_DONE: bool = false;      // the timer thread has fired it
    static mut SUBSCRIBED: bool = false;
    static mut T_DATA: Option<TD> = None;
    static mut PARK: *const Park = std::ptr::null();
    static mut RESUMED: usize = 0;
    static mut PARA_TIMEOUT: bool = false;
    static mut CANCEL: *const Cancel = std::ptr::null();
    static mut SCHED: *const Scheduler = std::ptr::null();
    static mut CO_RAW: usize = 0;
    static mut TQUEUE: *const TQ<TimeoutData<TD>> = std::ptr::null();

    fn run_u() { unsafe { U_DONE = true; DEPTH += 1; (*PARK).unpark(); DEPTH -= 1; } }
    // mirror of the timer thread's handler, scheduler.rs:49-57
    fn run_t() {
        unsafe {
            T_DONE = true; DEPTH += 1;
            let c = T_DATA.take().unwrap();
            if let Some(co) = c.take() {
                PARA_TIMEOUT = true;
                crate::coroutine_impl::run_coroutine(co);
            }
            std::mem::forget(c);
            DEPTH -= 1;
        }
    }
    fn hook() {
        unsafe {
            if DEPTH == 0 {
                if U_EXISTS && !U_DONE && kani::any() { run_u(); }
                if T_ARMED && SUBSCRIBED && !T_DONE && kani::any() { run_t(); }
            }
        }
    }
    fn bool_swap(a: &AtomicBool, v: bool, _o: Ordering) -> bool { hook(); let p = a.as_ptr(); unsafe { let old = *p; *p = v; old } }
    fn bool_load(a: &AtomicBool, _o: Ordering) -> bool { hook(); unsafe { *a.as_ptr() } }
    fn bool_store(a: &AtomicBool, v: bool, _o: Ordering) { hook(); unsafe { *a.as_ptr() = v; } }
    fn u64_swap(a: &AtomicU64, v: u64, _o: Ordering) -> u64 { hook(); let p = a.as_ptr(); unsafe { let old = *p; *p = v; old } }
    fn u64_store(a: &AtomicU64, v: u64, _o: Ordering) { hook(); unsafe { *a.as_ptr() = v; } }
    fn usize_swap(a: &AtomicUsize, v: usize, _o: Ordering) -> usize { hook(); let p = a.as_ptr(); unsafe { let old = *p; *p = v; old } }
    fn get_scheduler_stub() -> &'static Scheduler { unsafe { &*SCHED } }
    fn resumed(co: CoroutineImpl) { let raw = co.into_raw() as usize; unsafe { assert!(raw == CO_RAW); RESUMED += 1; } }
    fn schedule_stub(_s: &Scheduler, co: CoroutineImpl) { resumed(co) }
    fn run_coroutine_stub(co: CoroutineImpl) { resumed(co) }
    fn add_timer_stub(_s: &Scheduler, _d: Duration, co: TD) -> TimeoutHandle<TD> {
        unsafe {
            T_ARMED = true; T_DATA = Some(co.clone());
            let (h, _) = (*TQUEUE).push(TimeoutData::fake(co));
            h
        }
    }
    fn del_timer_stub(_s: &Scheduler, h: TimeoutHandle<TD>) { std::mem::forget(h); }
    fn co_cancel_data_stub(_co: &CoroutineImpl) -> &'static Cancel { unsafe { &*CANCEL } }
    fn current_cancel_data_stub() -> &'static Cancel { unsafe { &*CANCEL } }
    fn get_co_para_stub() -> Option<crate::coroutine_impl::EventResult> {
        unsafe { if PARA_TIMEOUT { PARA_TIMEOUT = false; Some(std::io::Error::new(ErrorKind::TimedOut, "t")) } else { None } }
    }
    fn yield_now_stub() { kani::assume(false); }
    fn catch_unwind_stub<F: FnOnce() -> R + std::panic::UnwindSafe, R>(f: F) -> std::thread::Result<R> { Ok(f()) }
    fn take_hook_stub() -> Box<dyn Fn(&std::panic::PanicHookInfo<'_>) + 'static + Sync + Send> { Box::new(|_| {}) }
    fn set_hook_stub(h: Box<dyn Fn(&std::panic::PanicHookInfo<'_>) + 'static + Sync + Send>) { std::mem::forget(h); }
    fn arc_drop_slow_stub<T: ?Sized, A: std::alloc::Allocator>(_a: &mut Arc<T, A>) {}
    fn co_yield_with_stub<T: std::any::Any>(v: T) {
        let b: Box<dyn std::any::Any> = Box::new(v);
        let es = *b.downcast::<crate::coroutine_impl::EventSubscriber>().unwrap();
        let co = CoroutineImpl::fresh();
        unsafe { CO_RAW = co.into_raw() as usize; }
        let co = unsafe { CoroutineImpl::from_raw(CO_RAW as *mut usize) };
        // the worker thread runs subscribe after the context switch
        es.subscribe(co);
        unsafe { SUBSCRIBED = true; }
        // suspended: let the others act
        hook();
        unsafe {
            if RESUMED == 0 && U_EXISTS && !U_DONE { run_u(); }
            // virtual time passes the deadline: the timer thread fires
            if RESUMED == 0 && T_ARMED && !T_DONE { run_t(); }
            // everybody who could wake us has acted
            assert!(RESUMED <= 1, "double resume");
            if U_EXISTS || T_ARMED { assert!(RESUMED == 1, "parked forever: wake-up or time-out lost"); }
            else { kani::assume(false); }
        }
    }

    #[kani::proof]
    #[kani::unwind(3)]
    #[kani::stub(core::sync::atomic::Atomic::<bool>::swap, bool_swap)]
    #[kani::stub(core::sync::atomic::Atomic::<bool>::load, bool_load)]
    #[kani::stub(core::sync::atomic::Atomic::<bool>::store, bool_store)]
    #[kani::stub(core::sync::atomic::Atomic::<u64>::swap, u64_swap)]
    #[kani::stub(core::sync::atomic::Atomic::<u64>::store, u64_store)]
    #[kani::stub(core::sync::atomic::Atomic::<usize>::swap, usize_swap)]
    #[kani::stub(crate::scheduler::get_scheduler, get_scheduler_stub)]
    #[kani::stub(crate::scheduler::Scheduler::schedule, schedule_stub)]
    #[kani::stub(crate::scheduler::Scheduler::add_timer, add_timer_stub)]
    #[kani::stub(crate::scheduler::Scheduler::del_timer, del_timer_stub)]
    #[kani::stub(stdpanic::catch_unwind, catch_unwind_stub)]
    #[kani::stub(stdpanic::take_hook, take_hook_stub)]
    #[kani::stub(stdpanic::set_hook, set_hook_stub)]
    #[kani::stub(std::sync::Arc::drop_slow, arc_drop_slow_stub)]
    #[kani::stub(crate::coroutine_impl::run_coroutine, run_coroutine_stub)]
    #[kani::stub(crate::coroutine_impl::co_cancel_data, co_cancel_data_stub)]
    #[kani::stub(crate::yield_now::get_co_para, get_co_para_stub)]
    #[kani::stub(crate::yield_now::yield_now, yield_now_stub)]
    #[kani::stub(generator::co_yield_with, co_yield_with_stub)]
    #[kani::stub(crate::coroutine_impl::current_cancel_data, current_cancel_data_stub)]
    fn park_timeout_vs_unpark_and_timer() {
        let park = Park::new();
        let cancel = Cancel::new();
        let sched: Box<MaybeUninit<Scheduler>> = Box::new_uninit();
        let tq: TQ<TimeoutData<TD>> = TQ::new();
        unsafe {
            PARK = &park; CANCEL = &cancel; TQUEUE = &tq;
            SCHED = Box::into_raw(sched) as *const Scheduler;
            U_EXISTS = kani::any();
        }
        let timed: bool = kani::any();
        let r = park.park_timeout(if timed { Some(Duration::from_millis(3)) } else { None });
        unsafe {
            // Timeout is reported only if the timer really fired
            if r == Err(ParkError::Timeout) { assert!(T_DONE); }
            assert!(r != Err(ParkError::Canceled));
            kani::cover!(r == Err(ParkError::Timeout));
            kani::cover!(r.is_ok() && RESUMED == 1 && timed);
        }
        std::mem::forget(park); std::mem::forget(tq);
    }
}
