#!/usr/bin/env python3
"""Regenerate MANIFEST.json from harness/INDEX.json + tools/claims.json (texts per property)."""
import json, os, subprocess
V = os.path.dirname(os.path.dirname(os.path.abspath(__file__)))
index = json.load(open(os.path.join(V, "harness/INDEX.json")))
claims = json.load(open(os.path.join(V, "tools/claims.json")))
props = [json.loads(l) for l in open(os.path.join(V, "properties.jsonl"))]
hooks = subprocess.run(["git", "-C", "/repo", "log", "--format=%H %s"], capture_output=True, text=True).stdout.splitlines()
hook_commits = [l.split()[0] for l in hooks if " verif hooks" in l]
checks, na = [], []
for p in props:
    pid = p["id"]
    c = claims.get(pid, {})
    if pid in index and c.get("claimed"):
        has_thorough = any("thorough" in h.get("tiers", ["quick", "thorough"]) for h in index[pid]["harnesses"])
        e = {"property_id": pid, "quick_cmd": "./check %s --tier quick" % pid,
             "evidence_file": "evidence/%s.json" % pid,
             "replay_cmd_template": "./check %s --replay {path}" % pid,
             "engine": "kani-np",
             "level_claimed": {"category": "model_checking", "text": c["level_text"], "design_ref": c.get("design_ref", "DESIGN.md §5 " + pid)},
             "level_note": c["level_note"],
             "technique": c.get("technique", "bounded model checking of the compiled real code (Kani 0.68 -> CBMC 6.11 -> CaDiCaL): symbolic inputs and solver-chosen pre-emption schedule, decided by SAT")}
        if has_thorough:
            e["thorough_cmd"] = "./check %s --tier thorough" % pid
        checks.append(e)
    else:
        na.append({"property_id": pid, "reason": c.get("na_reason", "no harness registered yet for this property (work in progress; see DESIGN.md)")})
m = {"version": 1,
     "setup_cmd": "./setup.sh",
     "hooks": {"guard": "cfg(kani)  (set only by cargo kani; never by cargo build/test)",
               "enable": "cargo kani -Z stubbing -Z unstable-options --ignore-global-asm -p <crate> --harness <name>  (run by ./check)",
               "baseline_off_cmd": "cd /repo && cargo nextest run --workspace --no-fail-fast --tool-config-file pb:/w/lib/nextest.toml --profile pb --test-threads 8 --offline || cargo test --workspace --no-fail-fast --offline",
               "source_commits": hook_commits, "add_only": True},
     "engines": [{"name": "kani-np", "path": "check", "serves_properties": [c["property_id"] for c in checks],
                  "kind_free_text": "Kani proof harnesses mounted into the real crates (cfg(kani) child modules under /verif/harness); schedules are symbolic through nested pre-emption at stubbed atomics; CBMC/CaDiCaL decides"}],
     "checks": checks,
     "notes": "exit 2 = inconclusive (time-out, out of memory, unwinding bound, unsatisfied witness); known findings: known_findings.json; a third tier `--tier extended` holds deeper harnesses that have not been verified to finish within the caps (not part of thorough_cmd); seeded changes and which check catches which: seeded/README.md",
     "not_applicable": na}
json.dump(m, open(os.path.join(V, "MANIFEST.json"), "w"), indent=1)
print("claimed:", [c["property_id"] for c in checks]); print("n/a:", [n["property_id"] for n in na])
