#!/bin/sh
# run every claimed check once (sequentially) - used to (re)generate the committed evidence files
cd "$(dirname "$0")/.."
tier=${1:-quick}
for id in $(python3 -c "import json;print(' '.join(c['property_id'] for c in json.load(open('MANIFEST.json'))['checks']))"); do
  echo "=== $id ($tier)"; ./check $id --tier $tier --jobs ${VERIF_JOBS:-4}; echo "exit=$?"
done
