#!/usr/bin/env python3
"""Add-only, cfg(kani)-guarded hooks for /repo (run once; recorded for reference).
Every edit inserts whole new lines; no existing line is changed or removed."""
import sys, re, pathlib
R = pathlib.Path(sys.argv[1] if len(sys.argv) > 1 else "/repo")

def edit(rel, fn):
    p = R / rel
    s = p.read_text()
    t = fn(s)
    assert t != s, rel
    p.write_text(t)

# 1. build scripts: declare the cfg so the unexpected_cfgs lint stays quiet
for b in ["build.rs", "may_queue/build.rs"]:
    edit(b, lambda s: s.replace('    println!("cargo:rustc-check-cfg=cfg(nightly)");\n',
        '    println!("cargo:rustc-check-cfg=cfg(nightly)");\n    println!("cargo:rustc-check-cfg=cfg(kani)");\n', 1))

# 2. crate roots
edit("src/lib.rs", lambda s: s.replace('// #![deny(missing_docs)]\n',
    '// #![deny(missing_docs)]\n#![cfg_attr(kani, recursion_limit = "1024")]\n#![cfg_attr(kani, feature(allocator_api))]\n#![cfg_attr(kani, feature(core_io_internals, core_io))]\n', 1)
    .replace('mod cancel;\n', '#[cfg(kani)]\n#[path = "/verif/harness/shim/mod.rs"]\npub(crate) mod verif_shim;\n\nmod cancel;\n', 1))
edit("may_queue/src/lib.rs", lambda s: s.replace('#![cfg_attr(all(nightly, test), feature(test))]\n',
    '#![cfg_attr(all(nightly, test), feature(test))]\n#![cfg_attr(kani, recursion_limit = "1024")]\n#![cfg_attr(kani, feature(allocator_api))]\n#![cfg_attr(kani, feature(core_io_internals, core_io))]\n', 1)
    .replace('mod atomic;\n', '#[cfg(kani)]\n#[path = "/verif/harness/shim/mod_queue.rs"]\npub(crate) mod verif_shim;\n\nmod atomic;\n', 1))

# 3. child-module mounts (harness files live in /verif)
MAY = ["park", "join", "cancel", "scheduler", "coroutine_impl", "timeout_list", "sleep", "yield_now",
       "scoped", "cqueue", "local", "pool",
       "sync/atomic_dur", "sync/mutex", "sync/semphore", "sync/sync_flag", "sync/condvar", "sync/rwlock",
       "sync/poison", "sync/barrier", "sync/wait_group", "sync/mpsc", "sync/spsc", "sync/mpmc", "sync/blocking",
       "io/sys/unix/mod", "io/sys/unix/epoll", "io/sys/unix/cancel",
       "io/sys/unix/net/socket_read", "io/sys/unix/net/socket_write"]
for m in MAY:
    name = m.replace("/", "_")
    edit(f"src/{m}.rs", lambda s, name=name: s + ("" if s.endswith("\n") else "\n") +
         f'\n#[cfg(kani)]\n#[path = "/verif/harness/may/{name}.rs"]\npub(crate) mod verif_kani;\n')
for m in ["mpsc", "spsc", "spmc", "mpsc_list_v1", "mpsc_list"]:
    edit(f"may_queue/src/{m}.rs", lambda s, m=m: s + ("" if s.endswith("\n") else "\n") +
         f'\n#[cfg(kani)]\n#[path = "/verif/harness/may_queue/{m}.rs"]\npub(crate) mod verif_kani;\n')

# 4. retargeted imports: `#[cfg(not(kani))]` above the untouched line, shim import below it
def retarget(rel, line, shim):
    edit(rel, lambda s: s.replace(line + "\n", "#[cfg(not(kani))]\n" + line + "\n#[cfg(kani)]\n" + shim + "\n", 1))
retarget("src/sync/mutex.rs", "use std::sync::{LockResult, TryLockError, TryLockResult};",
         "use crate::verif_shim::poison::{LockResult, TryLockError, TryLockResult};")
retarget("src/sync/rwlock.rs", "use std::sync::{LockResult, PoisonError, TryLockError, TryLockResult};",
         "use crate::verif_shim::poison::{LockResult, PoisonError, TryLockError, TryLockResult};")
retarget("src/sync/poison.rs", "use std::sync::{LockResult, PoisonError};",
         "use crate::verif_shim::poison::{LockResult, PoisonError};")
retarget("src/sync/condvar.rs", "use std::sync::{LockResult, PoisonError};",
         "use crate::verif_shim::poison::{LockResult, PoisonError};")
retarget("src/coroutine_impl.rs", "use generator::{Generator, Gn};",
         "use crate::verif_shim::gen::{Generator, Gn};")
retarget("src/pool.rs", "use generator::Gn;", "use crate::verif_shim::gen::Gn;")
print("ok")

# 5. (added later, separate commit) 4-slot queue blocks under cfg(kani): same pattern as the imports
for f, old in [("may_queue/src/mpsc.rs", "const BLOCK_SHIFT: usize = 6;"), ("may_queue/src/spsc.rs", "pub const BLOCK_SHIFT: usize = 5;"),
               ("may_queue/src/spmc.rs", "pub const BLOCK_SHIFT: usize = 5;")]:
    vis = "pub " if old.startswith("pub") else ""
    edit(f, lambda s, old=old, vis=vis: s.replace(old + "\n", "#[cfg(not(kani))]\n" + old + "\n#[cfg(kani)]\n" + vis + "const BLOCK_SHIFT: usize = 2;\n", 1))
