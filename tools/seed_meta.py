#!/usr/bin/env python3
"""(re)write seeded/<id>/meta.json and seeded/README.md from the table below."""
import json, os
V = os.path.dirname(os.path.dirname(os.path.abspath(__file__)))
SEEDS = [
 # id, property, what, needs, caught_by, status, note
 ("c03-1", "C03", "mpsc bulk_pop slow path: `pop_index >= push_index` weakened to `==`",
  "64-slot boundary + consumer calling bulk_pop twice inside the few-instruction window of a concurrent last-slot push (between the ready flag and the tail publish)",
  None, "MISSED", "bulk_pop returns a SmallVec; SmallVec's allocation/iteration code is not decidable under Kani/CBMC here (solver out of memory at 20 GB for a 2-element bulk_pop, 'pointer to unallocated memory' ERROR): C03 states bulk_pop as not decided"),
 ("c04-1", "C04", "spmc bulk_pop: waits for the first claimed slot instead of all claimed slots",
  "stalled stealer + the freed block re-allocated at the same address (ABA) + fewer tasks in the new block",
  None, "MISSED", "needs address re-use (CBMC never re-issues a freed address: not representable, stated in C04) and lives in bulk_pop (SmallVec, not decidable)"),
 ("c05-1", "C05", "Mutex::unpark_one samples take_release() before unpark() instead of after",
  "a waiter that registered and parked earlier is cancelled while the holder is inside unpark_one for it (between the flag sample and unparked.store)",
  "c05_mutex_unlock_vs_cancelled_waiter_d1", "CAUGHT-AFTER-STRENGTHENING", "first missed: the waiter's continuation runs *inside* the holder's operation although the waiter's operation began earlier (not stack-disciplined when the waiter is the root). Added the twin harness with the holder's real unlock as root and the waiter's give-up hand-shake (mirror of 6 lines, hash-guarded) landing at any atomic step"),
 ("c08-1", "C08", "AtomicDuration::to_millis rewritten as `as_nanos().div_ceil(1_000_000)`: Duration::ZERO becomes 0 = 'no time-out'",
  "a timeout of exactly zero, coroutine context, event not yet available",
  "c08_atomic_dur_boundaries, c08_atomic_dur_below_3ms", "CAUGHT-AFTER-STRENGTHENING", "first INCONCLUSIVE (exit 2, never a pass): the 128-bit division makes the fully symbolic harnesses time out. Added a constant boundary-input harness (decided in a second whatever arithmetic is used) and a symbolic harness restricted to d < 3 ms"),
 ("c10-1", "C10", "Semphore::wait_timeout_impl: re-check after set_release() removed on the give-up path",
  "a post() whose unpark/take_release lands between the timed-out waiter's is_unparked() load and its set_release() store",
  "c10_sem_waiter_vs_post_d1", "CAUGHT", "permits not conserved at quiescence"),
 ("c11-1", "C11", "Condvar::wait_impl runs the give-up hand-shake only for Timeout, not for Canceled",
  "a coroutine waiter is cancelled while blocked on the condvar; a later (or racing) notify_one with another waiter enqueued wakes nobody",
  "c11_condvar_cancelled_waiter_w2_vs_notify_one", "CAUGHT-AFTER-STRENGTHENING (thorough tier)", "the C11 harnesses had no cancellation (stated outside); added a cancelled-waiter harness with a second waiter queued (thorough tier, 26 min on the unchanged tree): refutes 'a notify_one issued with a live waiter enqueued woke nobody' in 23 min"),
 ("c12-1", "C12", "RwLock::lock: re-check after set_release() removed in the Canceled arm",
  "the holder's whole hand-off lands between the cancelled waiter's is_unparked() load and its set_release() store",
  "c12_rwlock_cancelled_writer_d1", "CAUGHT-AFTER-STRENGTHENING", "the first C12 harnesses had no cancellation; added the cancelled-writer harness (park gives up with Canceled at a solver-chosen moment, holder's drop at any atomic step of the give-up hand-shake)"),
 ("c01-1", "C01", "Join::trigger takes the registered waiter from to_wake before it publishes state = done",
  "a joiner registers, re-checks (still 'running') and parks inside the window between trigger's take() == None and its state store: nobody ever unparks it",
  "c01_trigger_vs_registering_thread_joiner_d1", "CAUGHT-AFTER-STRENGTHENING", "the waiter-root harness cannot see it (same shape as c05-1 / c07-1); added thread-joiner harnesses for both root assignments: the trigger-root twin refutes it in 5 s"),
 ("c02-1", "C02", "Park::subscribe's re-check after registering uses `!self.check_park()` (which clears the token) instead of `state.load()`",
  "the worker running subscribe of park #1 is delayed after publishing the coroutine; unpark #1 resumes the coroutine on another worker, park #1 returns, unpark #2 (for park #2) sets the token, then the stale re-check of park #1 clears it: park #2 blocks for ever",
  None, "MISSED", "needs the resumed coroutine's continuation to run *concurrently with the tail of its own subscribe* on another worker. In the sequential model a continuation cannot start before subscribe returns (stated as outside the bound in DESIGN §2.3/§5 C02); an unpark issued while subscribe is still running is indistinguishable from one that is concurrent with park #1, which may legitimately absorb it"),
 ("c03-2", "C03", "mpsc pop slow path: `head.get(id)` (wait for the producer that claimed the slot) replaced by `head.try_get(id)?`",
  "two producers: A stalled between its tail CAS and its slot write, B completes a push of a later slot; pop then returns None with B's completed value queued (any slot except the last of a block)",
  "c03_mpsc_np_producer_root_o0_d1", "CAUGHT-AFTER-STRENGTHENING", "the quick tier only had the two-producer harness at the block's last slot, where the tail is locked and no later push can complete; the slot-0 instance (existing, thorough) refutes it in 86 s and was moved into the quick tier"),
 ("c04-2", "C04", "spmc pop: the bit-63 'switching' flag is no longer stripped from the CAS comparand",
  "a second consumer's pop while another consumer is between its head->head|bit63 CAS and the following head.store (block switch): the same task is handed out twice",
  "c04_spmc_np_stealer_root_k3_d1", "CAUGHT (thorough tier)", "refuted 'a task was obtained twice' plus use-after-free dereferences in 7 min / 24 GB by the stalled-stealer harness, which is in the thorough tier only (too heavy for the quick tier); the runner first mis-reported the run as inconclusive because CBMC leaves the other checks undetermined after a fatal pointer failure - classification order fixed"),
 ("c05-2", "C05", "Mutex::lock: a locker whose fetch_add found the count at zero returns a guard right after waking the first queued waiter, instead of parking on its own blocker",
  "three lockers: A releases to zero while B and C have both failed try_lock; B pushes its blocker, C pushes and increments first, pops B, unparks B and returns a guard; B then increments, finds its token and returns a guard too",
  None, "MISSED", "needs two lockers (B and C) both in the middle of lock() while a third has just released: a non-nested three-party interleaving; the C05 harnesses have two lockers (stated bound). A third locker would have to be added as a second nested actor at depth 2 with B pre-empted between push and fetch_add and C's lock begun before A's release"),
 ("c06-1", "C06", "mpsc InnerQueue::recv: try_recv first, register only on Empty, re-check after registration removed",
  "a complete send (push, to_wake.take() == None) between the receiver's try_recv returning Empty and its to_wake.store, with no later send or sender drop",
  "c06_mpsc_thread_recv_vs_sends_and_drop_d1", "CAUGHT", "'receiver stays parked for ever although a sent value is queued'"),
 ("c07-1", "C07", "spsc drop_chan: wait_co.take() moved before channels.store(0)",
  "the receiver's registration and re-check both land between the sender's take() and its store: nobody is woken",
  "c07_spsc_last_sender_drop_vs_registering_receiver", "CAUGHT-AFTER-STRENGTHENING", "receiver-root harness cannot see it (the receiver's registration would have to land inside the sender's operation although recv began earlier); added the twin with the drop as root and the receiver's real Park::subscribe landing at any atomic step of drop_chan (7 s)"),
 ("c12-2", "C12", "RwLock::try_read counts the reader before the first-reader try_lock and does not undo it on the WouldBlock give-up path",
  "a try_read that fails under a held writer leaves a phantom reader; later readers then enter without the global lock / a live read guard no longer blocks writers",
  "c12_rwlock_seq_3ops", "CAUGHT", "3-operation history try_write, try_read, try_read: 'try_read succeeded while a write guard is alive' (26 s)"),
 ("c13-1", "C13", "RwLockWriteGuard::drop: write_unlock() before poison.done()",
  "a contender acquires the lock between the release and the poison-flag store of a panicking writer's guard drop and gets Ok instead of Poisoned",
  "c13_rwlock_panicking_writer_drop_vs_contender", "CAUGHT-AFTER-STRENGTHENING", "the sequential poison harnesses see the right end state; added a contender (try_write / try_read) at any atomic step of the panicking holder's guard drop, for RwLock and Mutex"),
 ("c19-1", "C19", "mpsc_list_v1 push reads `tail` before head.swap instead of after",
  "the consumer pops the last entry between the producer's tail read and its head.swap: push lands in an empty list but reports is_head == false (timer never installed)",
  "c19_list_np_producer_root_d1", "CAUGHT-AFTER-STRENGTHENING", "the first oracle checked is_head only for pushes nothing overlapped; now decided at the linearization point (a swap stub records 'empty at head.swap')"),
]
rows = []
for sid, prop, what, needs, by, status, note in SEEDS:
    d = os.path.join(V, "seeded", sid)
    if not os.path.isdir(d):
        continue
    ran = ["git apply patch.diff on a scratch worktree of /repo HEAD: applies", "cargo build --offline --workspace: no new warnings",
           "cargo test --workspace --offline with the change: all 249 unit/integration tests + doc tests pass",
           "the demonstration in demo/ (see demo/README.md): fails with the change, passes without it",
           "tools/try_seed.sh seeded/%s/patch.diff %s: %s" % (sid, prop, status + ((" by " + by) if by else ""))]
    json.dump({"id": sid, "breaks_property": prop, "change": what, "needs_to_manifest": needs, "author": "independent sub-agent (saw only the property text and a scratch worktree)",
               "confirmed": ran, "detected_by": by, "status": status, "note": note}, open(os.path.join(d, "meta.json"), "w"), indent=1)
    rows.append("| %s | %s | %s | %s | %s | %s |" % (sid, prop, what, needs, status + ((": `%s`" % by) if by else ""), note))
open(os.path.join(V, "seeded", "README.md"), "w").write(
 "# Seeded changes\n\nEach change was written by a fresh sub-agent that was given only the property text and a scratch git worktree of /repo,\n"
 "and was kept only after it was confirmed by hand: the patch applies on HEAD, the crate builds without new warnings, the unedited\n"
 "test suite passes with the change, and the agent's demonstration fails with the change and passes without it.\n"
 "`tools/try_seed.sh <patch> <property>` applies a patch to /repo, runs the property's check and undoes the patch.\n\n"
 "| id | property | change | needs | result | note |\n|---|---|---|---|---|---|\n" + "\n".join(rows) + "\n")
print(len(rows), "seeds")
