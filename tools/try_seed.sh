#!/bin/sh
# usage: tools/try_seed.sh <patch.diff> <property> [extra ./check args]
# applies a seeded change to /repo, runs the property's check, and undoes the change straight afterwards
patch=$1; prop=$2; shift 2
cd /repo || exit 2
git diff --quiet || { echo "/repo has uncommitted changes"; exit 2; }
git apply "$patch" || { echo "patch does not apply"; exit 2; }
cd /verif && ./check "$prop" --no-evidence "$@"; rc=$?
git -C /repo checkout -- .
echo "try_seed: $patch on $prop -> exit $rc"
exit $rc
